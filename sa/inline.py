"""Normalising pre-pass: helpers that did not exist on the reference tree are
inlined at their call sites before any rule looks at a module.

"Extract method" is the most common behaviour-preserving edit.  The rules are
anchored on the functions of the reference tree (fixtures/known_functions.json:
every def of the pinned tree); a *new private* helper (name starts with `_`,
same class or same module) that a refactoring introduced is substituted back
into its callers, so that a rule sees the statements where it expects them.  A
helper is inlined only when that is an exact transformation:
  - no decorators, generators, recursion, nested defs, global/nonlocal;
  - `return` only in tail position (last statement, or last statement of every
    branch of a trailing if/else chain);
  - the call is a statement of its own, the whole right-hand side of an
    assignment, or the whole operand of a return; or the helper is a single
    `return <expr>` and every argument is a plain name / attribute / constant;
  - positional and keyword arguments bind to parameters by the usual rules,
    defaults fill the rest; *args / **kwargs are not supported.
Locals of the helper are renamed (suffix `__<helper>`) so that they cannot
clash.  Anything else is left alone (the rules then treat the call as opaque).
"""
import ast
import copy
import json
import pathlib

_KNOWN = None


def known(rel):
  global _KNOWN
  if _KNOWN is None:
    p = pathlib.Path(__file__).resolve().parent.parent / 'fixtures' / 'known_functions.json'
    _KNOWN = json.loads(p.read_text()) if p.exists() else {}
  return set(_KNOWN.get(rel, ())) if rel in _KNOWN else None


_SHAPES = None


def known_shapes(rel):
  global _SHAPES
  if _SHAPES is None:
    p = pathlib.Path(__file__).resolve().parent.parent / 'fixtures' / 'known_shapes.json'
    _SHAPES = json.loads(p.read_text()) if p.exists() else {}
  return _SHAPES.get(rel, {})


_ASSIGNS = None


def known_assigns(rel):
  global _ASSIGNS
  if _ASSIGNS is None:
    p = pathlib.Path(__file__).resolve().parent.parent / 'fixtures' / 'known_assigns.json'
    _ASSIGNS = json.loads(p.read_text()) if p.exists() else {}
  return set(_ASSIGNS[rel]) if rel in _ASSIGNS else None


def module_assigned(tree):
  """names bound by assignment statements at module level (any nesting of
  if/try), with the number of bindings"""
  out = {}

  def rec(stmts):
    for s in stmts:
      if isinstance(s, ast.Assign):
        for t in s.targets:
          for n in ast.walk(t):
            if isinstance(n, ast.Name):
              out[n.id] = out.get(n.id, 0) + 1
      elif isinstance(s, (ast.AnnAssign, ast.AugAssign)) and isinstance(s.target, ast.Name):
        out[s.target.id] = out.get(s.target.id, 0) + 1
      elif isinstance(s, (ast.If, ast.Try, ast.With, ast.For, ast.While)):
        for f in ('body', 'orelse', 'finalbody'):
          rec(getattr(s, f, []) or [])
        for h in getattr(s, 'handlers', []) or []:
          rec(h.body)
  rec(tree.body)
  for c in tree.body:
    if isinstance(c, ast.ClassDef):
      for s in c.body:
        if isinstance(s, ast.Assign):
          for t in s.targets:
            if isinstance(t, ast.Name):
              k = c.name + '.' + t.id
              out[k] = out.get(k, 0) + 1
  return out


def _literal(e):
  if isinstance(e, ast.Constant):
    return True
  if isinstance(e, ast.Tuple):
    return all(_literal(x) for x in e.elts)
  if isinstance(e, ast.Call) and isinstance(e.func, ast.Name) and e.func.id == 'frozenset' \
      and len(e.args) == 1 and not e.keywords and isinstance(
          e.args[0], (ast.Tuple, ast.List, ast.Set)):
    return all(_literal(x) for x in e.args[0].elts)
  if isinstance(e, ast.Call) and ast.unparse(e.func) in (
      'operator.attrgetter', 'operator.itemgetter') and e.args and not e.keywords:
    return all(isinstance(x, ast.Constant) for x in e.args)    # immutable callables
  return False


def _root_name(e):
  while isinstance(e, ast.Attribute):
    e = e.value
  return e.id if isinstance(e, ast.Name) else None


def _table(e):
  """an immutable literal whose leaves are constants or plain dotted names
  (modules, enum members): a lookup table"""
  if isinstance(e, ast.Constant):
    return True
  if isinstance(e, ast.Tuple):
    return bool(e.elts) and all(_table(x) for x in e.elts)
  if isinstance(e, ast.Name):
    return True
  if isinstance(e, ast.Attribute):
    return _table(e.value) and not isinstance(e.value, (ast.Constant, ast.Tuple))
  return _literal(e)


def _const_dict(e, tree, name):
  """a dict display of plain dotted names / constants that nothing in the module
  ever changes through that name: a lookup table"""
  if not (isinstance(e, ast.Dict) and e.keys and all(
      k is not None and _table(k) and _table(v) and not isinstance(k, ast.Tuple)
      for k, v in zip(e.keys, e.values))):
    return False
  for n in ast.walk(tree):
    if isinstance(n, ast.Attribute) and n.attr == name and not isinstance(n.ctx, ast.Load):
      return False
    if isinstance(n, ast.Call) and isinstance(n.func, ast.Attribute) and n.func.attr in (
        'update', 'pop', 'clear', 'setdefault', 'popitem', '__setitem__') and isinstance(
            n.func.value, ast.Attribute) and n.func.value.attr == name:
      return False
    if isinstance(n, ast.Subscript) and not isinstance(n.ctx, ast.Load) and isinstance(
        n.value, ast.Attribute) and n.value.attr == name:
      return False
  return True


def inline_new_class_constants(tree, rel):
  """A private class attribute the reference tree does not have, bound once in
  the class body to a literal table and never assigned through self / the class:
  reads `self.X` / `Class.X` inside the methods of that class become the table."""
  ka = known_assigns(rel)
  if ka is None:
    return 0
  done = 0
  for c in tree.body:
    if not isinstance(c, ast.ClassDef):
      continue
    consts = {}
    for s in c.body:
      if isinstance(s, ast.Assign) and len(s.targets) == 1 and isinstance(
          s.targets[0], ast.Name):
        n = s.targets[0].id
        if n.startswith('_') and not n.startswith('__') and (c.name + '.' + n) not in ka \
            and ((_table(s.value) and isinstance(s.value, ast.Tuple)) or
                 _const_dict(s.value, tree, n) or
                 (isinstance(s.value, ast.Constant) and isinstance(
                     s.value.value, (str, int, bool)))):
          consts[n] = s.value
    for n in ast.walk(tree):
      if isinstance(n, ast.Attribute) and n.attr in consts and not isinstance(n.ctx, ast.Load):
        consts.pop(n.attr, None)
    if not consts:
      continue

    class R(ast.NodeTransformer):
      def visit_Attribute(self, x):
        self.generic_visit(x)
        if x.attr in consts and isinstance(x.ctx, ast.Load) and isinstance(
            x.value, ast.Name) and x.value.id in ('self', 'cls', c.name):
          nonlocal done
          done += 1
          return ast.copy_location(copy.deepcopy(consts[x.attr]), x)
        return x
    for m in c.body:
      if isinstance(m, ast.FunctionDef):
        R().visit(m)
  if done:
    ast.fix_missing_locations(tree)
  return done


def inline_new_constants(tree, rel):
  """A private module-level name that the reference tree does not have, bound
  once to an immutable literal (a constant, a tuple of constants), is replaced
  by that literal wherever a function reads it: "name the magic value" is
  behaviour preserving and the rules look at the value."""
  ka = known_assigns(rel)
  if ka is None:
    return 0
  counts = module_assigned(tree)
  consts = {}
  imported = set()
  for s in tree.body:
    if isinstance(s, (ast.Import, ast.ImportFrom)):
      for a in s.names:
        imported.add((a.asname or a.name).split('.')[0])
  for s in tree.body:
    if isinstance(s, ast.Assign) and len(s.targets) == 1 and isinstance(
        s.targets[0], ast.Name):
      n = s.targets[0].id
      if n.startswith('_') and not n.startswith('__') and n not in ka and \
          counts.get(n) == 1 and (_literal(s.value) or (
              isinstance(s.value, ast.Tuple) and _table(s.value)) or (
                  # a name for a member of an imported module (an enum member,
                  # a class): anno.Basic.QN, ast.Load
                  isinstance(s.value, ast.Attribute) and _table(s.value) and
                  _root_name(s.value) in imported)):
        consts[n] = s.value
  if not consts:
    return 0
  for n in ast.walk(tree):
    if isinstance(n, ast.Global):
      for g in n.names:
        consts.pop(g, None)
  done = [0]

  class R(ast.NodeTransformer):
    def __init__(self):
      self.shadow = [set()]

    def visit_FunctionDef(self, f):
      loc = {a.arg for a in f.args.posonlyargs + f.args.args + f.args.kwonlyargs}
      if f.args.vararg:
        loc.add(f.args.vararg.arg)
      if f.args.kwarg:
        loc.add(f.args.kwarg.arg)
      loc |= _stores(f)
      self.shadow.append(self.shadow[-1] | loc)
      self.generic_visit(f)
      self.shadow.pop()
      return f

    def visit_Lambda(self, f):
      loc = {a.arg for a in f.args.posonlyargs + f.args.args + f.args.kwonlyargs}
      self.shadow.append(self.shadow[-1] | loc)
      self.generic_visit(f)
      self.shadow.pop()
      return f

    def visit_Name(self, x):
      if isinstance(x.ctx, ast.Load) and x.id in consts and x.id not in self.shadow[-1] \
          and (len(self.shadow) > 1 or self.module_value):
        done[0] += 1
        return ast.copy_location(copy.deepcopy(consts[x.id]), x)
      return x

    module_value = False

    def visit_Assign(self, a):
      # the value of a *later* module-level assignment may be built from the
      # private tables (`TABLE = _PART_A + _PART_B`)
      if len(self.shadow) == 1 and not (len(a.targets) == 1 and isinstance(
          a.targets[0], ast.Name) and a.targets[0].id in consts):
        self.module_value = True
        try:
          a.value = self.visit(a.value)
        finally:
          self.module_value = False
        return a
      return self.generic_visit(a)
  R().visit(tree)
  ast.fix_missing_locations(tree)
  return done[0]


def scoped_functions(tree):
  """{qualname: FunctionDef} of module-level functions and methods."""
  out = {}
  for s in tree.body:
    if isinstance(s, ast.FunctionDef):
      out[s.name] = s
    elif isinstance(s, ast.ClassDef):
      for m in s.body:
        if isinstance(m, ast.FunctionDef):
          out[s.name + '.' + m.name] = m
  return out


def arity(fn):
  a = fn.args
  return len(a.posonlyargs) + len(a.args) + len(a.kwonlyargs)


def shape(fn):
  """Hash of the body with parameters and locals numbered in order of first
  appearance and the docstring dropped: equal for alpha-equivalent bodies."""
  import hashlib
  names = {}
  params = [a.arg for a in fn.args.posonlyargs + fn.args.args + fn.args.kwonlyargs]
  local = set(params) | _stores(fn)
  for p in params:
    names[p] = 'v%d' % len(names)

  class C(ast.NodeTransformer):
    def visit_Name(self, n):
      if n.id in local:
        names.setdefault(n.id, 'v%d' % len(names))
        return ast.Name(id=names[n.id], ctx=n.ctx)
      return n

    def visit_arg(self, n):
      if n.arg in local:
        names.setdefault(n.arg, 'v%d' % len(names))
        return ast.arg(arg=names[n.arg], annotation=None)
      return n
  f2 = copy.deepcopy(fn)
  f2.body = _strip_doc(f2.body) or [ast.Pass()]
  f2.name = '_'
  f2.decorator_list = []
  f2 = C().visit(f2)
  ast.fix_missing_locations(f2)
  return hashlib.sha1(ast.unparse(f2).encode()).hexdigest()[:16]


def referrers(tree):
  """{identifier: {qualnames of functions whose body mentions it}}"""
  out = {}
  for q, f in scoped_functions(tree).items():
    for n in ast.walk(f):
      if isinstance(n, ast.Name):
        out.setdefault(n.id, set()).add(q)
      elif isinstance(n, ast.Attribute):
        out.setdefault(n.attr, set()).add(q)
  return out


def expand_method_aliases(tree):
  """`visit_A = visit_B = _impl` in a class body (the same function under
  several names) becomes one def per name."""
  n = 0
  for c in tree.body:
    if not isinstance(c, ast.ClassDef):
      continue
    defs = {m.name: m for m in c.body if isinstance(m, ast.FunctionDef)}
    out = []
    for st in c.body:
      if isinstance(st, ast.Assign) and isinstance(st.value, ast.Name) and \
          st.value.id in defs and all(isinstance(t, ast.Name) for t in st.targets) and \
          not any(t.id in defs for t in st.targets):
        for t in st.targets:
          d = copy.deepcopy(defs[st.value.id])
          d.name = t.id
          out.append(ast.copy_location(d, st))
          n += 1
        continue
      out.append(st)
    c.body = out
  if n:
    ast.fix_missing_locations(tree)
  return n


def _move_back_methods(tree, cur, gone, new, sh):
  """A private method of the reference tree that is gone while a new private
  module-level function has its name, one parameter less (no self) and is called
  only from methods of that class: "a method that does not use self became a
  function".  The function is put back as the method and the calls as
  self.<name>(...).  Returns the number of functions moved."""
  moved = 0
  for g in sorted(gone):
    if '.' not in g:
      continue
    cname, mname = g.split('.', 1)
    if mname not in new or mname not in cur:
      continue
    f = cur[mname]
    if f.decorator_list or arity(f) != sh[g]['arity'] - 1 or any(
        isinstance(n, ast.Name) and n.id == 'self' for n in ast.walk(f)):
      continue
    cls = next((c for c in tree.body if isinstance(c, ast.ClassDef) and c.name == cname),
               None)
    if cls is None:
      continue
    # every mention of the function is a call inside a method of the class
    calls_in_cls = set()
    for m in cls.body:
      if isinstance(m, ast.FunctionDef) and m.args.args and m.args.args[0].arg == 'self':
        for n in ast.walk(m):
          if isinstance(n, ast.Call) and isinstance(n.func, ast.Name) and n.func.id == mname:
            calls_in_cls.add(id(n.func))
    mentions = [n for n in ast.walk(tree) if isinstance(n, ast.Name) and n.id == mname]
    if not mentions or any(id(n) not in calls_in_cls for n in mentions):
      continue
    meth = copy.deepcopy(f)
    meth.args.args.insert(0, ast.arg(arg='self', annotation=None))
    cls.body.append(meth)
    tree.body.remove(f)
    for m in cls.body:
      if isinstance(m, ast.FunctionDef):
        for n in ast.walk(m):
          if isinstance(n, ast.Call) and isinstance(n.func, ast.Name) and \
              n.func.id == mname and id(n.func) in calls_in_cls:
            n.func = ast.copy_location(ast.Attribute(
                value=ast.Name(id='self', ctx=ast.Load()), attr=mname, ctx=ast.Load()),
                                       n.func)
    ast.fix_missing_locations(tree)
    moved += 1
  return moved


def rename_back(tree, rel):
  """A private function of the reference tree that is gone, and a new private
  function in the same scope that is the same function under another name
  (alpha-equivalent body; or same arity and referred to from exactly the
  functions that referred to the old one): the new name is replaced by the old
  one throughout the module.  Returns {new: old}."""
  kn = known(rel)
  sh = known_shapes(rel)
  if kn is None or not sh:
    return {}
  cur = scoped_functions(tree)
  gone = [q for q in kn if q not in cur and q.split('.')[-1].startswith('_')
          and not q.split('.')[-1].startswith('__') and q in sh]
  new = [q for q in cur if q not in kn and q.split('.')[-1].startswith('_')
         and not q.split('.')[-1].startswith('__')]
  if not gone or not new:
    return {}
  moved = _move_back_methods(tree, cur, gone, new, sh)
  if moved:
    cur = scoped_functions(tree)
    gone = [g for g in gone if g not in cur]
    new = [q for q in new if q in cur]
    if not gone or not new:
      return {}
  refs = referrers(tree)
  idents = set(refs)
  for n in ast.walk(tree):
    if isinstance(n, ast.Constant) and isinstance(n.value, str):
      idents.add(n.value)
  ren = {}
  taken = set()
  for g in sorted(gone):
    scope = g.rsplit('.', 1)[0] if '.' in g else ''
    gname = g.split('.')[-1]
    if gname in idents:
      continue            # the old name is still mentioned: not a plain rename
    cands = [q for q in new if (q.rsplit('.', 1)[0] if '.' in q else '') == scope
             and q not in taken]
    exact = [q for q in cands if shape(cur[q]) == sh[g]['hash']]
    pick = None
    if len(exact) == 1:
      pick = exact[0]
    elif not exact:
      # the old name's referrers, with renamed referrers mapped back
      want = set(sh[g]['callers']) - {g}
      same = [q for q in cands if arity(cur[q]) == sh[g]['arity'] and want and
              {ren_q for ren_q in (refs.get(q.split('.')[-1], set()) - {q})} == want]
      if len(same) == 1:
        pick = same[0]
    if pick is not None:
      taken.add(pick)
      ren[pick.split('.')[-1]] = gname
  if not ren:
    return {}
  # every occurrence of a new name must be the function (no clash with locals
  # or attributes of other objects): accept only names that were absent before
  class R(ast.NodeTransformer):
    def visit_FunctionDef(self, n):
      if n.name in ren:
        n.name = ren[n.name]
      self.generic_visit(n)
      return n

    def visit_Name(self, n):
      if n.id in ren:
        n.id = ren[n.id]
      return n

    def visit_Attribute(self, n):
      self.generic_visit(n)
      if n.attr in ren:
        n.attr = ren[n.attr]
      return n
  R().visit(tree)
  return ren


def _dotted_text(e):
  parts = []
  while isinstance(e, ast.Attribute):
    parts.append(e.attr)
    e = e.value
  if isinstance(e, ast.Name):
    parts.append(e.id)
    return '.'.join(reversed(parts))
  return None


def _has(node, kinds):
  return any(isinstance(n, kinds) for n in ast.walk(node))


def _tail_ok(stmts):
  """returns occur only in tail position"""
  if not stmts:
    return True
  for s in stmts[:-1]:
    if _has(s, ast.Return):
      return False
  last = stmts[-1]
  if isinstance(last, ast.Return):
    return True
  if isinstance(last, ast.If):
    return _tail_ok(last.body) and _tail_ok(last.orelse)
  if isinstance(last, (ast.With,)):
    return _tail_ok(last.body)
  if isinstance(last, ast.Try):
    # try: ... return A / except E: ... return B   (the value is computed inside
    # the protected region either way)
    if any(_has(x, ast.Return) for x in last.finalbody):
      return False
    if last.orelse and _has(ast.Module(body=last.body, type_ignores=[]), ast.Return):
      return False
    return _tail_ok(last.body) and all(_tail_ok(h.body) for h in last.handlers) and \
        _tail_ok(last.orelse)
  return not _has(last, ast.Return)


def _always_returns(stmts):
  if not stmts:
    return False
  last = stmts[-1]
  if isinstance(last, ast.Return):
    return True
  if isinstance(last, ast.If):
    return _always_returns(last.body) and _always_returns(last.orelse)
  if isinstance(last, ast.With):
    return _always_returns(last.body)
  return False


def _nest_tail(stmts):
  """`if c: ...return` followed by more statements == the same if with those
  statements as its else branch (guard-clause style -> tail style)."""
  out = []
  for i, s in enumerate(stmts):
    if isinstance(s, ast.If) and not s.orelse and _always_returns(s.body) and \
        i + 1 < len(stmts):
      s2 = copy.copy(s)
      s2.body = _nest_tail(s.body)
      s2.orelse = _nest_tail(stmts[i + 1:])
      out.append(s2)
      return out
    if isinstance(s, ast.If):
      s2 = copy.copy(s)
      s2.body = _nest_tail(s.body)
      s2.orelse = _nest_tail(s.orelse)
      out.append(s2)
    else:
      out.append(s)
  return out


def _strip_doc(body):
  if body and isinstance(body[0], ast.Expr) and isinstance(body[0].value, ast.Constant) \
      and isinstance(body[0].value.value, str):
    return body[1:]
  return body


def _is_static(fn):
  return len(fn.decorator_list) == 1 and isinstance(fn.decorator_list[0], ast.Name) \
      and fn.decorator_list[0].id == 'staticmethod'


def eligible(fn, is_method, tail=True):
  a = fn.args
  if is_method and _is_static(fn):
    is_method = False          # no self: binds like a plain function
  elif fn.decorator_list:
    return False
  if a.posonlyargs:
    return False
  if a.kwarg and any(isinstance(n, ast.Name) and n.id == a.kwarg.arg and
                     not isinstance(n.ctx, ast.Load) for n in ast.walk(fn)):
    return False
  if a.vararg:
    # *rest is supported when it is only ever forwarded as *rest in calls
    v = a.vararg.arg
    starred = {id(x.value) for c in ast.walk(fn) if isinstance(c, ast.Call)
               for x in c.args if isinstance(x, ast.Starred)}
    if any(isinstance(n, ast.Name) and n.id == v and id(n) not in starred
           for n in ast.walk(fn)) or a.kwonlyargs:
      return False
  if _has(fn, (ast.Yield, ast.YieldFrom, ast.Await, ast.Global, ast.Nonlocal, ast.Lambda)):
    pass
  for n in ast.walk(fn):
    if n is not fn and isinstance(n, (ast.FunctionDef, ast.AsyncFunctionDef, ast.ClassDef)):
      return False
    if isinstance(n, (ast.Yield, ast.YieldFrom, ast.Await, ast.Global, ast.Nonlocal)):
      return False
    if isinstance(n, ast.Call):
      f = n.func
      if isinstance(f, ast.Name) and f.id == fn.name:
        return False
      if isinstance(f, ast.Attribute) and f.attr == fn.name and isinstance(
          f.value, ast.Name) and f.value.id == 'self':
        return False
  if is_method and (not a.args or a.args[0].arg != 'self'):
    return False
  if not tail:
    return True
  return _tail_ok(_nest_tail(_strip_doc(fn.body)))


def _is_none(e):
  return e is None or (isinstance(e, ast.Constant) and e.value is None)


def verdict_shape(fn, is_method):
  """`_helper(..)` deciding early: every return gives a constant that is not
  None, except a final `return None` / falling off the end ("no verdict").
  The call site `v = _helper(..); if v is not None: return v` is then the
  helper's statements with its returns being the caller's."""
  if not eligible(fn, is_method, tail=False):
    return False
  body = _strip_doc(fn.body)
  if body and isinstance(body[-1], ast.Return) and _is_none(body[-1].value):
    body = body[:-1]
  rets = [r for s in body for r in ast.walk(s) if isinstance(r, ast.Return)]
  return bool(rets) and all(isinstance(r.value, ast.Constant) and r.value.value is not None
                            for r in rets)


def _verdict_site(stmts, i):
  """(name, call) when stmts[i:i+2] is `v = f(..)` / `if v is not None: return v`
  and v is not read afterwards"""
  if i + 1 >= len(stmts):
    return None
  s, t = stmts[i], stmts[i + 1]
  if not (isinstance(s, ast.Assign) and len(s.targets) == 1 and isinstance(
      s.targets[0], ast.Name) and isinstance(s.value, ast.Call)):
    return None
  v = s.targets[0].id
  if not (isinstance(t, ast.If) and not t.orelse and len(t.body) == 1 and isinstance(
      t.body[0], ast.Return) and isinstance(t.body[0].value, ast.Name) and
          t.body[0].value.id == v):
    return None
  c = t.test
  if not (isinstance(c, ast.Compare) and len(c.ops) == 1 and isinstance(c.ops[0], ast.IsNot)
          and isinstance(c.left, ast.Name) and c.left.id == v and _is_none(c.comparators[0])):
    return None
  if any(isinstance(n, ast.Name) and n.id == v for r in stmts[i + 2:] for n in ast.walk(r)):
    return None
  return v, s.value


def _expand_verdict(fn, call, is_method, line):
  bound = _bind(fn, call, is_method)
  if bound is None:
    return None
  body = copy.deepcopy(_strip_doc(fn.body))
  if body and isinstance(body[-1], ast.Return) and _is_none(body[-1].value):
    body = body[:-1]
  stores = _stores(fn)
  tag = '__' + fn.name.strip('_')
  mapping, subst, pre = {}, {}, []
  for p, a in bound.items():
    if _simple(a) and p not in stores:
      subst[p] = a
    else:
      mapping[p] = p + tag
      pre.append(ast.Assign(targets=[ast.Name(id=p + tag, ctx=ast.Store())],
                            value=copy.deepcopy(a)))
  for x in stores:
    mapping.setdefault(x, x + tag)
  ren = _Rename(mapping, subst)
  out = pre + [ren.visit(x) for x in body]
  for x in out:
    ast.copy_location(x, line)
    ast.fix_missing_locations(x)
  return out or [ast.copy_location(ast.Pass(), line)]


def gen_shape(fn, is_method):
  """(pre, loop, index of the yield in loop.body, post) for a generator of the
  form  PRE; <while/for>: A; yield E; B  ; POST  with a single yield, else None."""
  a = fn.args
  if fn.decorator_list or a.vararg or a.kwarg or a.posonlyargs:
    return None
  if is_method and (not a.args or a.args[0].arg != 'self'):
    return None
  ys = [n for n in ast.walk(fn) if isinstance(n, (ast.Yield, ast.YieldFrom))]
  if len(ys) != 1 or not isinstance(ys[0], ast.Yield) or ys[0].value is None:
    return None
  for n in ast.walk(fn):
    if n is not fn and isinstance(n, (ast.FunctionDef, ast.AsyncFunctionDef, ast.ClassDef,
                                      ast.Lambda, ast.Await, ast.Global, ast.Nonlocal,
                                      ast.Return, ast.Try, ast.With)):
      return None
  body = _strip_doc(fn.body)
  loops = [i for i, st in enumerate(body) if isinstance(st, (ast.While, ast.For))]
  for li in loops:
    lp = body[li]
    if lp.orelse:
      continue
    for yi, st in enumerate(lp.body):
      if isinstance(st, ast.Expr) and st.value is ys[0]:
        others = body[:li] + body[li + 1:]
        if any(_has(o, (ast.Yield,)) for o in others):
          return None
        return body[:li], lp, yi, body[li + 1:]
  return None


def gen_straight(fn, is_method):
  """True for a generator without loops: `yield E` statements at any depth of
  if/else nesting, nothing else special."""
  a = fn.args
  if fn.decorator_list or a.vararg or a.kwarg or a.posonlyargs:
    return False
  if is_method and (not a.args or a.args[0].arg != 'self'):
    return False
  n_y = 0
  for n in ast.walk(fn):
    if n is not fn and isinstance(n, (ast.FunctionDef, ast.AsyncFunctionDef, ast.ClassDef,
                                      ast.Lambda, ast.Await, ast.Global, ast.Nonlocal,
                                      ast.Return, ast.Try, ast.With, ast.For, ast.While,
                                      ast.YieldFrom)):
      return False
    if isinstance(n, ast.Yield):
      n_y += 1
      if n.value is None:
        return False

  def stmts_ok(stmts):
    for st in stmts:
      if isinstance(st, ast.Expr) and isinstance(st.value, ast.Yield):
        continue
      if isinstance(st, ast.If):
        if _has(st.test, ast.Yield) or not stmts_ok(st.body) or not stmts_ok(st.orelse):
          return False
        continue
      if _has(st, ast.Yield):
        return False
    return True
  return 0 < n_y <= 6 and stmts_ok(_strip_doc(fn.body))


def _expand_straight(fn, call, is_method, loop_stmt):
  """`for T in gen(args): BODY`, gen without loops: gen's statements with each
  `yield E` replaced by BODY[T := E] (BODY has no break / continue)."""
  bound = _bind(fn, call, is_method)
  if bound is None or loop_stmt.orelse or not isinstance(loop_stmt.target, ast.Name):
    return None
  if any(isinstance(x, (ast.Break, ast.Continue)) for st in loop_stmt.body
         for x in _walk_same_loop(st)):
    return None
  t = loop_stmt.target.id
  if any(isinstance(x, ast.Name) and x.id == t and not isinstance(x.ctx, ast.Load)
         for st in loop_stmt.body for x in ast.walk(st)):
    return None
  stores = _stores(fn)
  tag = '__' + fn.name.strip('_')
  mapping, subst, pre = {}, {}, []
  for p, a in bound.items():
    if _simple(a) and p not in stores:
      subst[p] = a
    else:
      mapping[p] = p + tag
      pre.append(ast.Assign(targets=[ast.Name(id=p + tag, ctx=ast.Store())],
                            value=copy.deepcopy(a)))
  for s_ in stores:
    mapping.setdefault(s_, s_ + tag)
  ren = _Rename(mapping, subst)

  def conv(stmts):
    out = []
    for st in stmts:
      if isinstance(st, ast.Expr) and isinstance(st.value, ast.Yield):
        e = ren.visit(copy.deepcopy(st.value.value))
        if _simple(e):
          class R(ast.NodeTransformer):
            def visit_Name(self, x):
              if x.id == t and isinstance(x.ctx, ast.Load):
                return ast.copy_location(copy.deepcopy(e), x)
              return x
          out += [R().visit(copy.deepcopy(b)) for b in loop_stmt.body]
        else:
          out.append(ast.Assign(targets=[ast.Name(id=t, ctx=ast.Store())], value=e))
          out += copy.deepcopy(loop_stmt.body)
      elif isinstance(st, ast.If):
        st2 = copy.copy(st)
        st2.test = ren.visit(copy.deepcopy(st.test))
        st2.body = conv(st.body) or [ast.Pass()]
        st2.orelse = conv(st.orelse)
        out.append(st2)
      else:
        out.append(ren.visit(copy.deepcopy(st)))
    return out
  out = pre + conv(_strip_doc(fn.body))
  for st in out:
    ast.copy_location(st, loop_stmt)
    ast.fix_missing_locations(st)
  return out or [ast.copy_location(ast.Pass(), loop_stmt)]


def _expand_generator(fn, call, is_method, loop_stmt):
  """`for T in gen(args): BODY` with gen as in gen_shape: the generator's loop
  with `yield E` replaced by BODY (T bound to E)."""
  if gen_straight(fn, is_method):
    return _expand_straight(fn, call, is_method, loop_stmt)
  shape = gen_shape(fn, is_method)
  bound = _bind(fn, call, is_method)
  if shape is None or bound is None or loop_stmt.orelse:
    return None
  pre, lp, yi, post = shape
  body_has = lambda k: any(isinstance(x, k) for st in loop_stmt.body
                           for x in _walk_same_loop(st))
  if body_has(ast.Break) and post:
    return None        # a closed generator does not run what follows its loop
  if body_has(ast.Continue) and lp.body[yi + 1:]:
    return None        # `continue` resumes the generator after the yield
  stores = _stores(fn)
  tag = '__' + fn.name.strip('_')
  mapping, subst, pre_assign = {}, {}, []
  yv = lp.body[yi].value.value
  tgt = loop_stmt.target
  direct = None
  if isinstance(yv, ast.Name) and isinstance(tgt, ast.Name) and yv.id in (
      stores | set(bound)):
    tname = tgt.id
    used = {n.id for n in ast.walk(fn) if isinstance(n, ast.Name)}
    for p_, a_ in bound.items():
      used |= {n.id for n in ast.walk(a_) if isinstance(n, ast.Name)}
    body_stores = {n.id for st in loop_stmt.body for n in ast.walk(st)
                   if isinstance(n, ast.Name) and isinstance(n.ctx, (ast.Store, ast.Del))}
    if tname not in used and tname not in body_stores:
      direct = (yv.id, tname)
  for p, a in bound.items():
    if direct and p == direct[0]:
      mapping[p] = direct[1]
      pre_assign.append(ast.Assign(targets=[ast.Name(id=direct[1], ctx=ast.Store())],
                                   value=copy.deepcopy(a)))
    elif _simple(a) and p not in stores:
      subst[p] = a
    else:
      mapping[p] = p + tag
      pre_assign.append(ast.Assign(targets=[ast.Name(id=p + tag, ctx=ast.Store())],
                                   value=copy.deepcopy(a)))
  for s_ in stores:
    if s_ not in mapping:
      mapping[s_] = direct[1] if direct and s_ == direct[0] else s_ + tag
  ren = _Rename(mapping, subst)
  pre2 = [ren.visit(copy.deepcopy(x)) for x in pre]
  post2 = [ren.visit(copy.deepcopy(x)) for x in post]
  lp2 = copy.deepcopy(lp)
  ybody = []
  if not direct:
    ybody.append(ast.Assign(targets=[copy.deepcopy(tgt)],
                            value=ren.visit(copy.deepcopy(lp.body[yi].value.value))))
  ybody += copy.deepcopy(loop_stmt.body)
  before = [ren.visit(x) for x in lp2.body[:yi]]
  after = [ren.visit(x) for x in lp2.body[yi + 1:]]
  if isinstance(lp2, ast.While):
    lp2.test = ren.visit(lp2.test)
  else:
    lp2.iter = ren.visit(lp2.iter)
    lp2.target = ren.visit(lp2.target)
  lp2.body = before + ybody + after
  out = pre_assign + pre2 + [lp2] + post2
  for st in out:
    ast.copy_location(st, loop_stmt)
    ast.fix_missing_locations(st)
  return out


def _walk_same_loop(st):
  """nodes of st that belong to the enclosing loop (not to a nested loop/def)"""
  yield st
  if isinstance(st, (ast.For, ast.While, ast.FunctionDef, ast.Lambda, ast.ClassDef)):
    # a nested loop owns its own break/continue; its else clause does not
    for x in getattr(st, 'orelse', []) or []:
      yield from _walk_same_loop(x)
    return
  for ch in ast.iter_child_nodes(st):
    yield from _walk_same_loop(ch)


class _Rename(ast.NodeTransformer):

  def __init__(self, mapping, subst):
    self.mapping = mapping     # local -> renamed local
    self.subst = subst         # param -> argument expression

  def visit_Name(self, n):
    if n.id in self.subst and isinstance(n.ctx, ast.Load):
      return copy.deepcopy(self.subst[n.id])
    if n.id in self.mapping:
      return ast.copy_location(ast.Name(id=self.mapping[n.id], ctx=n.ctx), n)
    return n

  def visit_Lambda(self, n):
    # the parameters of a lambda are its own names
    own = {a.arg for a in n.args.posonlyargs + n.args.args + n.args.kwonlyargs}
    if n.args.vararg:
      own.add(n.args.vararg.arg)
    if n.args.kwarg:
      own.add(n.args.kwarg.arg)
    saved = (self.mapping, self.subst)
    self.mapping = {k: v for k, v in self.mapping.items() if k not in own}
    self.subst = {k: v for k, v in self.subst.items() if k not in own}
    try:
      self.generic_visit(n)
    finally:
      self.mapping, self.subst = saved
    return n

  def visit_Call(self, n):
    self.generic_visit(n)
    # f(a, *(x, y))  ==  f(a, x, y)   (a forwarded *rest after substitution)
    if any(isinstance(a, ast.Starred) and isinstance(a.value, ast.Tuple) for a in n.args):
      args = []
      for a in n.args:
        if isinstance(a, ast.Starred) and isinstance(a.value, ast.Tuple):
          args.extend(a.value.elts)
        else:
          args.append(a)
      n.args = args
    return n


def _simple(e):
  if isinstance(e, (ast.Name, ast.Constant)):
    return True
  if isinstance(e, ast.Attribute):
    return _simple(e.value)
  if isinstance(e, ast.Subscript) and isinstance(e.slice, ast.Constant):
    return _simple(e.value)
  if isinstance(e, ast.Tuple):
    return all(_simple(x) for x in e.elts)     # an immutable literal of pure reads
  if isinstance(e, ast.Call) and _literal(e):
    return True                                # attrgetter('a', 'b'): a constant
  return False


def _bind(fn, call, is_method):
  params = [a.arg for a in fn.args.args]
  if is_method:
    params = params[1:]
  kwonly = [a.arg for a in fn.args.kwonlyargs]
  if any(isinstance(a, ast.Starred) for a in call.args) or any(k.arg is None for k in call.keywords):
    return None
  bound = {}
  if len(call.args) > len(params):
    if not fn.args.vararg:
      return None
    bound[fn.args.vararg.arg] = ast.Tuple(elts=list(call.args[len(params):]),
                                          ctx=ast.Load())
  elif fn.args.vararg:
    bound[fn.args.vararg.arg] = ast.Tuple(elts=[], ctx=ast.Load())
  for p, a in zip(params, call.args):
    bound[p] = a
  extra = []
  for k in call.keywords:
    if k.arg in bound:
      return None
    if k.arg not in params + kwonly:
      if not fn.args.kwarg:
        return None
      extra.append(k)
      continue
    bound[k.arg] = k.value
  if fn.args.kwarg:
    # **rest receives the remaining keywords as a fresh dict
    bound[fn.args.kwarg.arg] = ast.Dict(keys=[ast.Constant(k.arg) for k in extra],
                                        values=[k.value for k in extra])
  defaults = fn.args.defaults
  for p, d in zip(params[len(params) - len(defaults):], defaults):
    bound.setdefault(p, d)
  for p, d in zip(kwonly, fn.args.kw_defaults):
    if d is not None:
      bound.setdefault(p, d)
  if set(bound) != set(params + kwonly + (
      [fn.args.vararg.arg] if fn.args.vararg else []) + (
          [fn.args.kwarg.arg] if fn.args.kwarg else [])):
    return None
  return bound


def _stores(fn):
  out = set()
  for n in ast.walk(fn):
    if isinstance(n, ast.Name) and isinstance(n.ctx, (ast.Store, ast.Del)):
      out.add(n.id)
  return out


def _expand(fn, call, is_method, how, target, line):
  """statements replacing a call statement; how in ('expr', 'assign', 'return')"""
  bound = _bind(fn, call, is_method)
  if bound is None:
    return None
  body = copy.deepcopy(_nest_tail(_strip_doc(fn.body)))
  stores = _stores(fn)
  tag = '__' + fn.name.strip('_')
  mapping = {}
  subst = {}
  pre = []
  # `a, b = helper(...)` where the helper ends in `return x, y` (its own
  # locals): the helper's locals *are* the caller's variables -- rename them to
  # the targets instead of copying through temporaries
  direct = _direct_targets(fn, body, stores, bound, call, target) if how == 'assign' else None
  arg_names = [x.id for a_ in bound.values() for x in ast.walk(a_)
               if isinstance(x, ast.Name)]
  for p, a in bound.items():
    if direct and p in direct:
      continue             # `x = helper(x, ...)`: the parameter is the target itself
    if how == 'return' and p in stores and isinstance(a, ast.Name) and \
        arg_names.count(a.id) == 1 and a.id not in stores - {p} and \
        a.id not in {n.id for n in ast.walk(fn) if isinstance(n, ast.Name)} - {p}:
      # `return helper(x, ..)`: the caller's x is dead after the call, so the
      # helper may work on it in place
      mapping[p] = a.id
      continue
    if _simple(a) and p not in stores:
      subst[p] = a
    else:
      mapping[p] = p + tag
      pre.append(ast.Assign(targets=[ast.Name(id=p + tag, ctx=ast.Store())],
                            value=copy.deepcopy(a)))
  for s in stores:
    if s not in mapping:
      mapping[s] = s + tag
  if direct:
    mapping.update(direct)
  ren = _Rename(mapping, subst)
  body = [ren.visit(s) for s in body]

  def tail(stmts):
    if not stmts:
      return stmts
    last = stmts[-1]
    if isinstance(last, ast.Return):
      v = last.value if last.value is not None else ast.Constant(None)
      if how == 'assign' and direct:
        rep = []
      elif how == 'assign':
        rep = _split_tuple_assign(target, v) or [
            ast.Assign(targets=copy.deepcopy(target), value=v)]
      elif how == 'return':
        rep = [ast.Return(value=v)]
      else:
        rep = [ast.Expr(value=v)] if last.value is not None else [ast.Pass()]
      return stmts[:-1] + rep
    if isinstance(last, ast.If):
      last.body = tail(last.body)
      last.orelse = tail(last.orelse) if last.orelse else (
          [] if how == 'expr' else tail([ast.Return(value=None)]))
      return stmts
    if isinstance(last, ast.With):
      last.body = tail(last.body)
      return stmts
    if isinstance(last, ast.Try) and _has(last, ast.Return):
      if last.orelse:
        last.orelse = tail(last.orelse)
      else:
        last.body = tail(last.body)
      for h_ in last.handlers:
        h_.body = tail(h_.body)
      return stmts
    # falls off the end: the call evaluates to None
    if how == 'assign':
      return stmts + [ast.Assign(targets=copy.deepcopy(target), value=ast.Constant(None))]
    if how == 'return':
      return stmts + [ast.Return(value=ast.Constant(None))]
    return stmts
  body = tail(body)
  out = pre + body
  for s in out:
    for n in ast.walk(s):
      if not hasattr(n, 'lineno'):
        pass
    ast.copy_location(s, line)
    ast.fix_missing_locations(s)
  return out or [ast.copy_location(ast.Pass(), line)]


def _split_tuple_assign(target, v):
  """`a, b = e1, e2` as `a = e1; b = e2` when no later element reads an earlier
  target (then both orders of evaluation give the same result)."""
  if not target or len(target) != 1 or not isinstance(target[0], (ast.Tuple, ast.List)) \
      or not isinstance(v, ast.Tuple) or len(v.elts) != len(target[0].elts):
    return None
  ts = target[0].elts
  if not all(isinstance(t, ast.Name) for t in ts) or any(
      isinstance(e, ast.Starred) for e in v.elts):
    return None
  for i, t in enumerate(ts):
    for e in v.elts[i + 1:]:
      if any(isinstance(n, ast.Name) and n.id == t.id for n in ast.walk(e)):
        return None
  return [ast.Assign(targets=[ast.Name(id=t.id, ctx=ast.Store())], value=e)
          for t, e in zip(ts, v.elts)]


def _returns(stmts, out):
  for s in stmts:
    if isinstance(s, ast.Return):
      out.append(s)
    for f in ('body', 'orelse', 'finalbody'):
      b = getattr(s, f, None)
      if isinstance(b, list) and b and isinstance(b[0], ast.stmt):
        _returns(b, out)
    for h in getattr(s, 'handlers', []) or []:
      _returns(h.body, out)
  return out


def _direct_targets(fn, body, stores, bound, call, target):
  """{helper local: caller target name} when every return of the helper returns
  the same plain locals and renaming them to the targets is exact."""
  if not target or len(target) != 1:
    return None
  t = target[0]
  if isinstance(t, ast.Name):
    tnames = [t.id]
  elif isinstance(t, (ast.Tuple, ast.List)) and t.elts and all(
      isinstance(e, ast.Name) for e in t.elts):
    tnames = [e.id for e in t.elts]
  else:
    return None
  if len(set(tnames)) != len(tnames):
    return None
  rets = _returns(body, [])
  if not rets or not _always_returns(body):
    return None
  shapes = set()
  for r in rets:
    v = r.value
    if isinstance(t, ast.Name):
      if not isinstance(v, ast.Name):
        return None
      shapes.add((v.id,))
    else:
      if not isinstance(v, ast.Tuple) or not all(isinstance(e, ast.Name) for e in v.elts):
        return None
      shapes.add(tuple(e.id for e in v.elts))
  if len(shapes) != 1:
    return None
  locs = list(shapes.pop())
  if len(locs) != len(tnames) or len(set(locs)) != len(locs):
    return None
  params = {a.arg for a in fn.args.args + fn.args.kwonlyargs}
  for l, tn in zip(locs, tnames):
    if l not in stores:
      return None
    # a parameter may be returned only when it was given the target itself:
    # `x = helper(x, ...)` -- the helper then works on x in place
    if l in params and not (isinstance(bound.get(l), ast.Name) and bound[l].id == tn):
      return None
  # the target names must not be visible inside the helper in any other role
  used = {n.id for n in ast.walk(fn) if isinstance(n, ast.Name)}
  for p, a in list(bound.items()):
    if p in locs:
      continue
    used |= {n.id for n in ast.walk(a) if isinstance(n, ast.Name)}
  if any(tn in used and tn not in locs for tn in tnames):
    return None
  if any(tn in locs and locs[i] != tn for i, tn in enumerate(tnames)):
    return None
  return dict(zip(locs, tnames))


def _const_truth(t):
  """truth value of a test built from constants only, else None"""
  if isinstance(t, ast.Constant):
    return bool(t.value)
  if isinstance(t, ast.UnaryOp) and isinstance(t.op, ast.Not):
    v = _const_truth(t.operand)
    return None if v is None else (not v)
  if isinstance(t, ast.BoolOp):
    vs = [_const_truth(v) for v in t.values]
    if isinstance(t.op, ast.And):
      if any(v is False for v in vs):
        return False
      return True if all(v is True for v in vs) else None
    if any(v is True for v in vs):
      return True
    return False if all(v is False for v in vs) else None
  if isinstance(t, ast.Compare) and len(t.ops) == 1 and isinstance(
      t.ops[0], (ast.Is, ast.IsNot)) and isinstance(t.left, ast.Constant) and isinstance(
          t.comparators[0], ast.Constant) and t.comparators[0].value is None:
    r = t.left.value is None
    return r if isinstance(t.ops[0], ast.Is) else (not r)
  # 'vararg' in ('vararg', 'kwarg') / == between constants
  if isinstance(t, ast.Compare) and len(t.ops) == 1 and isinstance(t.left, ast.Constant):
    c = t.comparators[0]
    if isinstance(t.ops[0], (ast.In, ast.NotIn)) and isinstance(
        c, (ast.Tuple, ast.List, ast.Set)) and all(isinstance(e, ast.Constant) for e in c.elts):
      r = any(type(e.value) is type(t.left.value) and e.value == t.left.value for e in c.elts)
      return r if isinstance(t.ops[0], ast.In) else (not r)
    if isinstance(t.ops[0], (ast.Eq, ast.NotEq)) and isinstance(c, ast.Constant) and \
        type(c.value) is type(t.left.value):
      r = c.value == t.left.value
      return r if isinstance(t.ops[0], ast.Eq) else (not r)
  return None


def _fold_constant_ifs(stmts):
  """`if True: A else: B` -> A  (after a constant argument was substituted)"""
  out = []
  for s in stmts:
    for f in ('body', 'orelse', 'finalbody'):
      b = getattr(s, f, None)
      if isinstance(b, list) and b and isinstance(b[0], ast.stmt):
        setattr(s, f, _fold_constant_ifs(b) or ([ast.Pass()] if f == 'body' else []))
    if isinstance(s, ast.If) and _const_truth(s.test) is not None:
      out.extend(s.body if _const_truth(s.test) else s.orelse)
    else:
      out.append(s)
  return out


def view(fn, cls_node, module_tree, depth=3, keep=(), only=None):
  """A copy of `fn` in which calls of eligible private helpers (methods of its
  class through self, module-level functions) are expanded, known or new, and
  conditions that became constant are folded: what the function does, whichever
  way its work is split into helpers."""
  helpers_mod = {s.name: s for s in module_tree.body
                 if isinstance(s, ast.FunctionDef) and s.name.startswith('_')
                 and not s.name.startswith('__') and s is not fn and s.name not in keep
                 and (only is None or s.name in only) and eligible(s, False)}
  helpers_cls = {}
  cname = None
  if cls_node is not None:
    cname = cls_node.name
    helpers_cls[cname] = {m.name: m for m in cls_node.body
                          if isinstance(m, ast.FunctionDef) and m.name.startswith('_')
                          and not m.name.startswith('__') and m is not fn
                          and m.name not in keep and (only is None or m.name in only)
                          and eligible(m, True)}
  f2 = copy.deepcopy(fn)
  inl = _Inliner(helpers_mod, helpers_cls)
  for _ in range(depth):
    before = inl.count
    f2.body = _fold_constant_ifs(inl.block(f2.body, cname)) or [ast.Pass()]
    if inl.count == before:
      break
  ast.fix_missing_locations(f2)
  return f2


def _as_expression(fn):
  """The value of a helper as one expression: `return E`, possibly preceded by
  assignments of call-free expressions to locals that are each assigned once and
  read once (they are substituted into E)."""
  body = _nest_tail(_strip_doc(fn.body))

  def ret_expr(stmts):
    # `return E`, or `if c: return A` / `else: return B` (guard clauses nested
    # by _nest_tail) as the conditional expression `A if c else B`
    if len(stmts) == 1 and isinstance(stmts[0], ast.Return) and stmts[0].value is not None:
      return copy.deepcopy(stmts[0].value)
    if len(stmts) == 1 and isinstance(stmts[0], ast.If) and stmts[0].orelse:
      a, b = ret_expr(stmts[0].body), ret_expr(stmts[0].orelse)
      if a is not None and b is not None:
        return ast.IfExp(test=copy.deepcopy(stmts[0].test), body=a, orelse=b)
    return None
  if not body:
    return None
  e = ret_expr(body[-1:])
  if e is None:
    return None
  for st in reversed(body[:-1]):
    if not (isinstance(st, ast.Assign) and len(st.targets) == 1 and isinstance(
        st.targets[0], ast.Name)) or _has(st.value, (ast.Call, ast.Lambda, ast.Yield,
                                                     ast.NamedExpr)):
      return None
    name = st.targets[0].id
    uses = [n for n in ast.walk(e) if isinstance(n, ast.Name) and n.id == name]
    if len(uses) != 1 or any(isinstance(n, ast.Name) and n.id == name
                             for n in ast.walk(st.value)):
      return None
    val = st.value

    class R(ast.NodeTransformer):
      def visit_Name(self, n):
        if n.id == name and isinstance(n.ctx, ast.Load):
          return copy.deepcopy(val)
        return n
    e = R().visit(e)
  # no other stores may remain, except the variables of comprehensions (their
  # scope travels with the expression; the caller checks that no argument
  # mentions one of them)
  comp = {x.id for c in ast.walk(e) if isinstance(c, ast.comprehension)
          for x in ast.walk(c.target) if isinstance(x, ast.Name)}
  if any(isinstance(n, ast.Name) and not isinstance(n.ctx, ast.Load) and n.id not in comp
         for n in ast.walk(e)) or _has(e, (ast.NamedExpr, ast.Lambda)):
    return None
  return e


class _Inliner:

  def __init__(self, helpers_mod, helpers_cls, gens_mod=None, gens_cls=None):
    self.helpers_mod = helpers_mod      # name -> FunctionDef (module level)
    self.helpers_cls = helpers_cls      # class name -> {name: FunctionDef}
    self.gens_mod = gens_mod or {}      # generator helpers (gen_shape)
    self.gens_cls = gens_cls or {}
    self.verdicts = None                # (module level, per class) verdict helpers
    self.count = 0

  def _gen_callee(self, call, cls):
    f = call.func
    if isinstance(f, ast.Name) and f.id in self.gens_mod:
      return self.gens_mod[f.id], False
    if isinstance(f, ast.Attribute) and isinstance(f.value, ast.Name) and \
        f.value.id == 'self' and cls is not None and f.attr in self.gens_cls.get(cls, {}):
      return self.gens_cls[cls][f.attr], True
    return None, False

  def _callee(self, call, cls, tables=None):
    f = call.func
    helpers_mod, helpers_cls = tables or (self.helpers_mod, self.helpers_cls)
    if isinstance(f, ast.Name) and f.id in helpers_mod:
      return helpers_mod[f.id], False
    if isinstance(f, ast.Attribute) and isinstance(f.value, ast.Name) and \
        f.value.id == 'self' and cls is not None and f.attr in helpers_cls.get(cls, {}):
      h = helpers_cls[cls][f.attr]
      return h, not _is_static(h)
    # ClassName._helper(...) for a static helper of that class
    if isinstance(f, ast.Attribute) and isinstance(f.value, ast.Name) and \
        f.attr in helpers_cls.get(f.value.id, {}) and _is_static(
            helpers_cls[f.value.id][f.attr]):
      return helpers_cls[f.value.id][f.attr], False
    return None, False

  def block(self, stmts, cls):
    out = []
    skip = False
    for i, s in enumerate(stmts):
      if skip:
        skip = False
        continue
      vs = _verdict_site(stmts, i) if self.verdicts else None
      if vs is not None:
        fn, is_m = self._callee(vs[1], cls, self.verdicts)
        rep = _expand_verdict(fn, vs[1], is_m, s) if fn is not None else None
        if rep is not None:
          self.count += 1
          out.extend(self.block(rep, cls))
          skip = True
          continue
      rep = self.stmt(s, cls)
      out.extend(rep)
    return out

  def stmt(self, s, cls):
    # recurse into compound statements first
    for f in ('body', 'orelse', 'finalbody'):
      b = getattr(s, f, None)
      if isinstance(b, list) and b and isinstance(b[0], ast.stmt):
        setattr(s, f, self.block(b, cls))
    if isinstance(s, ast.Try):
      for h in s.handlers:
        h.body = self.block(h.body, cls)
    if isinstance(s, (ast.FunctionDef, ast.ClassDef)):
      return [s]
    if isinstance(s, ast.For) and isinstance(s.iter, ast.Call):
      g, is_m = self._gen_callee(s.iter, cls)
      if g is not None:
        rep = _expand_generator(g, s.iter, is_m, s)
        if rep is not None:
          self.count += 1
          return rep
    call = how = target = None
    if isinstance(s, ast.Expr) and isinstance(s.value, ast.Call):
      call, how = s.value, 'expr'
    elif isinstance(s, ast.Assign) and isinstance(s.value, ast.Call):
      call, how, target = s.value, 'assign', s.targets
    elif isinstance(s, ast.Return) and isinstance(s.value, ast.Call):
      call, how = s.value, 'return'
    if call is not None:
      fn, is_m = self._callee(call, cls)
      if fn is not None:
        rep = _expand(fn, call, is_m, how, target, s)
        if rep is not None:
          self.count += 1
          return self.block(rep, cls)
    # expression-bodied helpers anywhere inside the statement
    self._expr_inline(s, cls)
    # one call of a statement-bodied helper nested in a simple statement whose
    # other sub-expressions are call-free: hoist it in front (same order of
    # evaluation), then expand
    if isinstance(s, (ast.Assign, ast.Expr, ast.Return, ast.AugAssign, ast.Raise)):
      calls = [n for n in ast.walk(s) if isinstance(n, ast.Call)]
      mine = [c for c in calls if self._callee(c, cls)[0] is not None]
      def _only_after(c0):
        """every other call of the statement takes c0 (directly or nested) as an
        argument, after arguments that are plain reads: c0 runs first"""
        for c in calls:
          if c is c0:
            continue
          if not any(x is c0 for x in ast.walk(c)) or not _simple(c.func):
            return False
          for a in list(c.args) + [k.value for k in c.keywords]:
            if any(x is c0 for x in ast.walk(a)):
              break
            if not _simple(a):
              return False
        return True
      if len(mine) == 1 and (len(calls) == 1 or _only_after(mine[0])) and not _has(
          s, (ast.Lambda, ast.ListComp, ast.GeneratorExp, ast.DictComp, ast.SetComp,
              ast.IfExp, ast.BoolOp)):
        fn, is_m = self._callee(mine[0], cls)
        tmp = 'ret__' + fn.name.strip('_')
        rep = _expand(fn, mine[0], is_m, 'assign', [ast.Name(id=tmp, ctx=ast.Store())], s)
        if rep is not None:
          class R(ast.NodeTransformer):
            def visit_Call(self, n):
              if n is mine[0]:
                return ast.copy_location(ast.Name(id=tmp, ctx=ast.Load()), n)
              return self.generic_visit(n)
          s2 = R().visit(s)
          ast.fix_missing_locations(s2)
          self.count += 1
          return self.block(rep, cls) + [s2]
    return [s]

  def _expr_inline(self, s, cls):
    me = self

    class T(ast.NodeTransformer):
      def visit_FunctionDef(self, n):
        return n
      def visit_Lambda(self, n):
        return n
      def visit_Call(self, n):
        self.generic_visit(n)
        fn, is_m = me._callee(n, cls)
        if fn is None:
          return n
        ex = _as_expression(fn)
        if ex is None:
          return n
        bound = _bind(fn, n, is_m)
        if bound is None or not all(_simple(a) for a in bound.values()):
          return n
        comp = {x.id for c in ast.walk(ex) if isinstance(c, ast.comprehension)
                for x in ast.walk(c.target) if isinstance(x, ast.Name)}
        if comp & ({x.id for a in bound.values() for x in ast.walk(a)
                    if isinstance(x, ast.Name)} | set(bound)):
          return n        # an argument would be captured by a comprehension variable
        me.count += 1
        e = _Rename({}, bound).visit(ex)
        return ast.copy_location(e, n)
    for f, v in ast.iter_fields(s):
      if isinstance(v, ast.expr):
        setattr(s, f, T().visit(v))
      elif isinstance(v, list):
        for i, x in enumerate(v):
          if isinstance(x, ast.expr):
            v[i] = T().visit(x)
          elif isinstance(x, (ast.keyword, ast.withitem, ast.comprehension)):
            T().visit(x)


def apply(tree, rel):
  """Inlines helpers that are new with respect to the reference tree, then
  removes pure aliases.  Returns the number of call sites rewritten (tree is
  modified in place)."""
  expand_method_aliases(tree)
  rename_back(tree, rel)
  inline_new_constants(tree, rel)
  inline_new_class_constants(tree, rel)
  n = _apply_helpers(tree, rel)
  import os
  for _round in range(2):
    _Idioms().visit(tree)
    fold_lock_blocks(tree)
    unfold_starmaps(tree)
    done = 0
    if os.environ.get('VERIF_NO_ALIAS_PROP') != '1':
      # attributes of self that some method other than __init__ rebinds: an
      # alias of one of them is a snapshot, not a name for the attribute
      rebound = set()
      for f in ast.walk(tree):
        if isinstance(f, ast.FunctionDef) and f.name != '__init__':
          for x in ast.walk(f):
            if isinstance(x, ast.Attribute) and isinstance(x.ctx, (ast.Store, ast.Del)) \
                and isinstance(x.value, ast.Name) and x.value.id == 'self':
              rebound.add(x.attr)
      for f in ast.walk(tree):
        if isinstance(f, ast.FunctionDef):
          done += propagate_aliases(f, rebound)
      ast.fix_missing_locations(tree)
    if not done:
      break
  return n


def _single_exit_to_returns(fn):
  """`if c: r = A` / `else: r = B` followed by `return r` (r used nowhere else)
  is `if c: return A` / `else: return B`: the single-exit spelling of a choice."""
  def ends_with_assign(stmts, r):
    if not stmts:
      return False
    last = stmts[-1]
    if isinstance(last, ast.Assign) and len(last.targets) == 1 and isinstance(
        last.targets[0], ast.Name) and last.targets[0].id == r:
      return True
    if isinstance(last, ast.If) and last.orelse:
      return ends_with_assign(last.body, r) and ends_with_assign(last.orelse, r)
    return False

  def push(stmts, r):
    last = stmts[-1]
    if isinstance(last, ast.Assign):
      stmts[-1] = ast.copy_location(ast.Return(value=last.value), last)
    else:
      push(last.body, r)
      push(last.orelse, r)

  def rec(stmts):
    for st in stmts:
      if isinstance(st, (ast.FunctionDef, ast.AsyncFunctionDef, ast.ClassDef)):
        continue
      for f in ('body', 'orelse', 'finalbody'):
        b = getattr(st, f, None)
        if isinstance(b, list) and b and isinstance(b[0], ast.stmt):
          rec(b)
      for h in getattr(st, 'handlers', []) or []:
        rec(h.body)
    for i in range(len(stmts) - 1):
      a, b = stmts[i], stmts[i + 1]
      if isinstance(a, ast.If) and a.orelse and isinstance(b, ast.Return) and isinstance(
          b.value, ast.Name) and ends_with_assign(a.body, b.value.id) and \
          ends_with_assign(a.orelse, b.value.id):
        r = b.value.id
        uses = [x for x in ast.walk(fn) if isinstance(x, ast.Name) and x.id == r and
                isinstance(x.ctx, ast.Load)]
        if len(uses) != 1:
          continue
        push(a.body, r)
        push(a.orelse, r)
        del stmts[i + 1]
        ast.fix_missing_locations(fn)
        return rec(stmts)
  rec(fn.body)


def _callee_choice(fn):
  """`g = A if c else B` followed by one simple statement that calls g (its
  only use) is `if c: <statement with A>` / `else: <statement with B>`: the
  callee is named at each call, as in the two-branch spelling."""
  def pure(e):
    if isinstance(e, ast.Compare):
      return _simple(e.left) and all(_simple(x) for x in e.comparators)
    if isinstance(e, ast.BoolOp):
      return all(pure(v) for v in e.values)
    if isinstance(e, ast.UnaryOp) and isinstance(e.op, ast.Not):
      return pure(e.operand)
    return _simple(e)

  def rec(stmts):
    for st in stmts:
      if isinstance(st, (ast.FunctionDef, ast.AsyncFunctionDef, ast.ClassDef)):
        continue
      for f in ('body', 'orelse', 'finalbody'):
        b = getattr(st, f, None)
        if isinstance(b, list) and b and isinstance(b[0], ast.stmt):
          rec(b)
      for h in getattr(st, 'handlers', []) or []:
        rec(h.body)
    i = 0
    while i + 1 < len(stmts):
      a, b = stmts[i], stmts[i + 1]
      if isinstance(a, ast.Assign) and len(a.targets) == 1 and isinstance(
          a.targets[0], ast.Name) and isinstance(a.value, ast.IfExp) and pure(
              a.value.test) and _simple(a.value.body) and _simple(a.value.orelse) and \
          isinstance(b, (ast.Return, ast.Expr, ast.Assign)):
        g = a.targets[0].id
        loads = [x for x in ast.walk(fn) if isinstance(x, ast.Name) and x.id == g and
                 isinstance(x.ctx, ast.Load)]
        stores = [x for x in ast.walk(fn) if isinstance(x, ast.Name) and x.id == g and
                  not isinstance(x.ctx, ast.Load)]
        calls = [c for c in ast.walk(b) if isinstance(c, ast.Call) and isinstance(
            c.func, ast.Name) and c.func.id == g]
        in_b = [x for x in ast.walk(b) if isinstance(x, ast.Name) and x.id == g and
                isinstance(x.ctx, ast.Load)]
        # (after a `return` nothing can read this binding any more)
        only_here = (len(loads) == 1 and len(stores) == 1) or isinstance(b, ast.Return)
        if only_here and len(calls) == 1 and len(in_b) == 1 and in_b[0] is calls[0].func:
          def with_callee(e):
            b2 = copy.deepcopy(b)
            for c in ast.walk(b2):
              if isinstance(c, ast.Call) and isinstance(c.func, ast.Name) and c.func.id == g:
                c.func = copy.deepcopy(e)
            return b2
          new = ast.If(test=a.value.test, body=[with_callee(a.value.body)],
                       orelse=[with_callee(a.value.orelse)])
          stmts[i:i + 2] = [ast.fix_missing_locations(ast.copy_location(new, a))]
          continue
      i += 1
  rec(fn.body)


def _fuse_comprehension_loops(fn):
  """`L = [E(v) for v in S if C]` followed by `for x in L: BODY`, L read nowhere
  else  ==  `for v in S: if C: x = E(v); BODY`.  The list only exists to be
  walked once; E and C are reads (no call on anything BODY writes through)."""
  def blocks(stmts):
    yield stmts
    for st in stmts:
      for f in ('body', 'orelse', 'finalbody'):
        b = getattr(st, f, None)
        if isinstance(b, list) and b and isinstance(b[0], ast.stmt) and not isinstance(
            st, (ast.FunctionDef, ast.ClassDef)):
          yield from blocks(b)
  done = 0
  for block in list(blocks(fn.body)):
    i = 0
    while i + 1 < len(block):
      lp = block[i + 1]
      i += 1
      # the list is defined right before the loop, or with plain local
      # assignments (of names the comprehension does not mention) in between
      a, ai = None, None
      for back in range(i - 1, max(-1, i - 4), -1):
        c_ = block[back]
        if isinstance(c_, ast.Assign) and len(c_.targets) == 1 and isinstance(
            c_.targets[0], ast.Name) and isinstance(
                c_.value, (ast.ListComp, ast.GeneratorExp)) and isinstance(
                    lp, ast.For) and isinstance(lp.iter, ast.Name) and \
            lp.iter.id == c_.targets[0].id:
          between = block[back + 1:i]
          names_c = {x.id for x in ast.walk(c_.value) if isinstance(x, ast.Name)}
          if all(isinstance(b_, ast.Assign) and len(b_.targets) == 1 and isinstance(
              b_.targets[0], ast.Name) and b_.targets[0].id not in names_c and
                 b_.targets[0].id != c_.targets[0].id and not any(
                     isinstance(x, ast.Name) and x.id == c_.targets[0].id
                     for x in ast.walk(b_.value)) for b_ in between):
            a, ai = c_, back
          break
      if a is None:
        continue
      if not (isinstance(a, ast.Assign) and len(a.targets) == 1 and isinstance(
          a.targets[0], ast.Name) and isinstance(a.value, (ast.ListComp, ast.GeneratorExp))
              and len(a.value.generators) == 1 and not a.value.generators[0].is_async
              and isinstance(a.value.generators[0].target, ast.Name)):
        continue
      name = a.targets[0].id
      if not (isinstance(lp, ast.For) and isinstance(lp.iter, ast.Name) and
              lp.iter.id == name and not lp.orelse and isinstance(lp.target, ast.Name)):
        continue
      uses = sum(1 for x in ast.walk(fn) if isinstance(x, ast.Name) and x.id == name)
      if uses != 2:
        continue
      gen = a.value.generators[0]
      v = gen.target.id
      # the comprehension variable must be free for use as a loop variable
      if sum(1 for x in ast.walk(fn) if isinstance(x, ast.Name) and x.id == v) != sum(
          1 for x in ast.walk(a) if isinstance(x, ast.Name) and x.id == v):
        continue
      pure = all(isinstance(c.func, (ast.Name, ast.Attribute)) for c in ast.walk(a.value)
                 if isinstance(c, ast.Call)) and not _has(
                     a.value, (ast.Lambda, ast.Yield, ast.YieldFrom, ast.Await,
                               ast.NamedExpr))
      if not pure:
        continue
      inner = [ast.Assign(targets=[ast.Name(id=lp.target.id, ctx=ast.Store())],
                          value=a.value.elt)] + lp.body
      for t in gen.ifs[::-1]:
        inner = [ast.If(test=t, body=inner, orelse=[])]
      new = ast.For(target=ast.Name(id=v, ctx=ast.Store()), iter=gen.iter, body=inner,
                    orelse=[])
      ast.copy_location(new, lp)
      ast.fix_missing_locations(new)
      block[i] = new
      del block[ai]
      i -= 1
      done += 1
  return done


class _Idioms(ast.NodeTransformer):
  """Spelling variants with one meaning, brought to one form:
       x.get(k, None) -> x.get(k)          set((a,)) / set([a]) -> {a}
       getattr(x, 'name') -> x.name        setattr(x, 'name', v) -> x.name = v"""

  def visit_FunctionDef(self, n):
    self.__dict__.setdefault('_fns', []).append(n)
    self.generic_visit(n)
    self._fns.pop()
    _callee_choice(n)
    _single_exit_to_returns(n)
    _fuse_comprehension_loops(n)
    return n

  def visit_If(self, n):
    self.generic_visit(n)
    if isinstance(n.test, ast.Constant):
      keep = n.body if n.test.value else n.orelse
      return keep or [ast.copy_location(ast.Pass(), n)]
    # if anno.hasanno(X, K): V = anno.getanno(X, K) / else: V = D
    #   ==  V = anno.getanno(X, K, D)      (the repo's own annotation API)
    t = n.test
    if isinstance(t, ast.Call) and _dotted_text(t.func) == 'anno.hasanno' and \
        len(t.args) == 2 and not t.keywords and len(n.body) == 1 and len(n.orelse) == 1 \
        and all(isinstance(x, ast.Assign) and len(x.targets) == 1 and isinstance(
            x.targets[0], ast.Name) for x in (n.body[0], n.orelse[0])) and \
        n.body[0].targets[0].id == n.orelse[0].targets[0].id:
      g = n.body[0].value
      if isinstance(g, ast.Call) and _dotted_text(g.func) == 'anno.getanno' and \
          len(g.args) == 2 and not g.keywords and [ast.dump(a) for a in g.args] == [
              ast.dump(a) for a in t.args] and _simple(t.args[0]):
        new = ast.Assign(targets=n.body[0].targets, value=ast.Call(
            func=g.func, args=list(g.args) + [n.orelse[0].value], keywords=[]))
        return ast.fix_missing_locations(ast.copy_location(new, n))
    return n

  def visit_BinOp(self, n):
    self.generic_visit(n)
    # (a, b) + (c,)  ==  (a, b, c)
    if isinstance(n.op, ast.Add) and isinstance(n.left, ast.Tuple) and isinstance(
        n.right, ast.Tuple) and isinstance(n.left.ctx, ast.Load) and not any(
            isinstance(x, ast.Starred) for x in n.left.elts + n.right.elts):
      return ast.copy_location(ast.Tuple(elts=n.left.elts + n.right.elts, ctx=ast.Load()), n)
    return n

  def visit_IfExp(self, n):
    self.generic_visit(n)
    # anno.getanno(X, K) if anno.hasanno(X, K) else D  ==  anno.getanno(X, K, D)
    t, g = n.test, n.body
    if isinstance(t, ast.Call) and _dotted_text(t.func) == 'anno.hasanno' and \
        len(t.args) == 2 and not t.keywords and isinstance(g, ast.Call) and \
        _dotted_text(g.func) == 'anno.getanno' and len(g.args) == 2 and not g.keywords \
        and [ast.dump(a) for a in g.args] == [ast.dump(a) for a in t.args] and \
        _simple(t.args[0]):
      return ast.copy_location(ast.Call(func=g.func, args=list(g.args) + [n.orelse],
                                        keywords=[]), n)
    return n

  def visit_Compare(self, n):
    self.generic_visit(n)
    # None is None / None is not None (after a table row was substituted)
    if len(n.ops) == 1 and isinstance(n.ops[0], (ast.Is, ast.IsNot)) and isinstance(
        n.left, ast.Constant) and isinstance(n.comparators[0], ast.Constant) and \
        n.left.value is None and n.comparators[0].value is None:
      return ast.copy_location(ast.Constant(isinstance(n.ops[0], ast.Is)), n)
    return n

  def visit_UnaryOp(self, n):
    self.generic_visit(n)
    if isinstance(n.op, ast.Not) and isinstance(n.operand, ast.Constant) and isinstance(
        n.operand.value, bool):
      return ast.copy_location(ast.Constant(not n.operand.value), n)
    return n

  def visit_BoolOp(self, n):
    self.generic_visit(n)
    is_and = isinstance(n.op, ast.And)
    vals = []
    for v in n.values:
      if isinstance(v, ast.Constant) and isinstance(v.value, bool):
        if v.value != is_and:
          # absorbing element: decides the result if nothing before it can
          vals.append(v)
          break
        continue          # neutral element
      vals.append(v)
    if not vals:
      return ast.copy_location(ast.Constant(is_and), n)
    if len(vals) == 1:
      return vals[0]
    n.values = vals
    return n

  def visit_Return(self, n):
    # `return A if c else B`  ==  `if c: return A` / `else: return B`
    self.generic_visit(n)
    if isinstance(n.value, ast.IfExp) and _has(n.value, ast.Call):
      g = ast.If(test=n.value.test,
                 body=[self.visit_Return(ast.copy_location(ast.Return(value=n.value.body), n))],
                 orelse=[self.visit_Return(ast.copy_location(
                     ast.Return(value=n.value.orelse), n))])
      return ast.fix_missing_locations(ast.copy_location(g, n))
    return n

  def visit_For(self, n):
    # `if c: continue` as first statement of a loop body  ==  `if not c: <rest>`
    if n.body and isinstance(n.body[0], ast.If) and not n.body[0].orelse and \
        len(n.body[0].body) == 1 and isinstance(n.body[0].body[0], ast.Continue) and \
        not any(isinstance(x, (ast.Continue, ast.Break)) for st in n.body[1:]
                for x in _walk_same_loop(st)):
      rest = n.body[1:] or [ast.copy_location(ast.Pass(), n)]
      g = ast.If(test=ast.UnaryOp(op=ast.Not(), operand=n.body[0].test), body=rest,
                 orelse=[])
      n.body = [ast.fix_missing_locations(ast.copy_location(g, n.body[0]))]
    # for v in ('a', 'b'): BODY  ==  BODY[v:='a']; BODY[v:='b']   (constants
    # only, no break/continue/else, v not rebound, v not used afterwards is not
    # required: the unrolled form assigns nothing, so a later read of v is kept
    # correct by a trailing `v = <last>`)
    def _elem_ok(e):
      if isinstance(e, ast.Constant):
        return isinstance(e.value, (str, int, bool, type(None)))
      return _simple(e)          # a plain name / attribute chain: a pure read
    elem_names = {x.id for e in getattr(n.iter, 'elts', []) for x in ast.walk(e)
                  if isinstance(x, ast.Name)}
    # targets: one name, or a tuple of names matched against literal rows
    tnames = None
    if isinstance(n.target, ast.Name):
      tnames = [n.target.id]
    elif isinstance(n.target, (ast.Tuple, ast.List)) and n.target.elts and all(
        isinstance(t, ast.Name) for t in n.target.elts):
      tnames = [t.id for t in n.target.elts]
    rows = None
    if tnames and isinstance(n.iter, (ast.Tuple, ast.List)) and 0 < len(n.iter.elts) <= 16:
      if len(tnames) == 1:
        rows = [[e] for e in n.iter.elts]
      elif all(isinstance(e, (ast.Tuple, ast.List)) and len(e.elts) == len(tnames)
               for e in n.iter.elts):
        rows = [list(e.elts) for e in n.iter.elts]
    if rows is not None and len(set(tnames)) == len(tnames) and all(
        _elem_ok(c) for r in rows for c in r) and \
        not n.orelse and len(n.body) <= 6 and not any(
            isinstance(x, (ast.Break, ast.Continue, ast.FunctionDef, ast.Lambda,
                           ast.ClassDef, ast.Yield, ast.YieldFrom))
            or (isinstance(x, ast.Name) and (x.id in tnames or x.id in elem_names)
                and not isinstance(x.ctx, ast.Load))
            for b in n.body for x in ast.walk(b)):
      out = []
      for row in rows:
        m = dict(zip(tnames, row))

        class R(ast.NodeTransformer):
          def visit_Name(self, x):
            if x.id in m and isinstance(x.ctx, ast.Load):
              return ast.copy_location(copy.deepcopy(m[x.id]), x)
            return x
        for b in n.body:
          out.append(R().visit(copy.deepcopy(b)))
      fn = self._fns[-1] if getattr(self, '_fns', None) else None
      for v, last in zip(tnames, rows[-1]):
        loads = lambda root, v=v: sum(1 for x in ast.walk(root) if isinstance(x, ast.Name)
                                      and x.id == v and isinstance(x.ctx, ast.Load))
        if fn is None or loads(fn) > loads(n):
          # the variable is read after the loop: it keeps its last value
          out.append(ast.Assign(targets=[ast.Name(id=v, ctx=ast.Store())],
                                value=copy.deepcopy(last)))
      res = []
      for st in out:
        ast.copy_location(st, n)
        ast.fix_missing_locations(st)
        r = self.visit(st)
        res.extend(r if isinstance(r, list) else [r])
      # tests on the loop variable are constant now
      return _fold_constant_ifs(res) or [ast.copy_location(ast.Pass(), n)]
    self.generic_visit(n)
    return n

  def visit_Assign(self, n):
    # local = obj.attr = V   ==   obj.attr = V; local = obj.attr   (a plain
    # attribute chain of a name: the local is an alias of what was stored)
    if len(n.targets) == 2:
      nm = [t for t in n.targets if isinstance(t, ast.Name)]
      ch = [t for t in n.targets if (isinstance(t, ast.Attribute) and _simple(t)) or (
          isinstance(t, ast.Subscript) and _simple(t.value) and isinstance(
              t.slice, (ast.Name, ast.Constant)))]
      if len(nm) == 1 and len(ch) == 1:
        first = ast.copy_location(ast.Assign(targets=[ch[0]], value=n.value), n)
        load = copy.deepcopy(ch[0])
        load.ctx = ast.Load()
        second = ast.copy_location(ast.Assign(targets=[nm[0]], value=load), n)
        ast.fix_missing_locations(first)
        ast.fix_missing_locations(second)
        r = self.visit_Assign(first)
        return (r if isinstance(r, list) else [r]) + [second]
    # X = functools.reduce(operator.or_, (E for v in IT), INIT)
    #   ==  X = INIT; for v in IT: X |= E      (| on values without __ior__, or
    #       on a fresh INIT set: the same result either way)
    c = n.value
    if len(n.targets) == 1 and isinstance(n.targets[0], ast.Name) and isinstance(
        c, ast.Call) and ast.unparse(c.func) in ('functools.reduce', 'reduce') and \
        len(c.args) == 3 and not c.keywords and ast.unparse(c.args[0]) in (
            'operator.or_', 'operator.ior') and isinstance(
                c.args[1], (ast.GeneratorExp, ast.ListComp)) and \
        len(c.args[1].generators) == 1 and not c.args[1].generators[0].ifs and \
        not c.args[1].generators[0].is_async:
      g = c.args[1].generators[0]
      x = n.targets[0].id
      if not any(isinstance(y, ast.Name) and y.id == x for y in ast.walk(c)):
        init = ast.Assign(targets=[ast.Name(id=x, ctx=ast.Store())], value=c.args[2])
        loop = ast.For(target=g.target, iter=g.iter, body=[ast.AugAssign(
            target=ast.Name(id=x, ctx=ast.Store()), op=ast.BitOr(),
            value=c.args[1].elt)], orelse=[])
        out = []
        for st in (init, loop):
          ast.copy_location(st, n)
          ast.fix_missing_locations(st)
          r = self.visit(st)
          out.extend(r if isinstance(r, list) else [r])
        return out
    self.generic_visit(n)
    return n

  def visit_Expr(self, n):
    self.generic_visit(n)
    c = n.value
    # D.setdefault(K, set()).update(V)  ==  if K in D: D[K].update(V)
    #                                       else:      D[K] = set(V)
    if isinstance(c, ast.Call) and isinstance(c.func, ast.Attribute) and \
        c.func.attr == 'update' and len(c.args) == 1 and not c.keywords and \
        isinstance(c.func.value, ast.Call) and isinstance(c.func.value.func, ast.Attribute) \
        and c.func.value.func.attr == 'setdefault' and len(c.func.value.args) == 2 and \
        isinstance(c.func.value.args[1], ast.Call) and isinstance(
            c.func.value.args[1].func, ast.Name) and c.func.value.args[1].func.id == 'set' \
        and not c.func.value.args[1].args and _simple(c.func.value.args[0]) and \
        _simple(c.func.value.func.value):
      d, k, v = c.func.value.func.value, c.func.value.args[0], c.args[0]
      sub = lambda ctx: ast.Subscript(value=copy.deepcopy(d), slice=copy.deepcopy(k), ctx=ctx)
      new = ast.If(
          test=ast.Compare(left=copy.deepcopy(k), ops=[ast.In()], comparators=[copy.deepcopy(d)]),
          body=[ast.Expr(value=ast.Call(
              func=ast.Attribute(value=sub(ast.Load()), attr='update', ctx=ast.Load()),
              args=[copy.deepcopy(v)], keywords=[]))],
          orelse=[ast.Assign(targets=[sub(ast.Store())], value=ast.Call(
              func=ast.Name(id='set', ctx=ast.Load()), args=[copy.deepcopy(v)], keywords=[]))])
      return ast.fix_missing_locations(ast.copy_location(new, n))
    if isinstance(c, ast.Call) and isinstance(c.func, ast.Name) and c.func.id == 'setattr' \
        and len(c.args) == 3 and not c.keywords and isinstance(c.args[1], ast.Constant) \
        and isinstance(c.args[1].value, str) and c.args[1].value.isidentifier():
      return ast.copy_location(ast.Assign(
          targets=[ast.Attribute(value=c.args[0], attr=c.args[1].value, ctx=ast.Store())],
          value=c.args[2]), n)
    return n

  @staticmethod
  def _unrolled(elt, gens, simple_ok=False):
    """[elt[v:=c] for c in literal constants] for a single, unfiltered generator
    over a literal tuple / list of constants; None otherwise"""
    if len(gens) != 1 or gens[0].ifs or gens[0].is_async or not isinstance(
        gens[0].target, ast.Name) or not isinstance(gens[0].iter, (ast.Tuple, ast.List)):
      return None
    elts = gens[0].iter.elts
    if not (0 < len(elts) <= 8) or not all(
        isinstance(e, ast.Constant) or (simple_ok and _simple(e) and not isinstance(
            e, ast.Tuple)) for e in elts):
      return None
    v = gens[0].target.id
    if any(isinstance(x, ast.Name) and x.id == v and not isinstance(x.ctx, ast.Load)
           for x in ast.walk(elt)) or _has(elt, (ast.Lambda, ast.GeneratorExp, ast.ListComp,
                                                 ast.SetComp, ast.DictComp)):
      return None
    out = []
    for c in elts:
      class R(ast.NodeTransformer):
        def visit_Name(self, x):
          if x.id == v and isinstance(x.ctx, ast.Load):
            return ast.copy_location(copy.deepcopy(c), x)
          return x
      out.append(R().visit(copy.deepcopy(elt)))
    return out

  def visit_ListComp(self, n):
    u = self._unrolled(n.elt, n.generators)
    if u is not None:
      return self.visit(ast.copy_location(ast.List(elts=u, ctx=ast.Load()), n))
    self.generic_visit(n)
    return n

  def visit_Call(self, n):
    # dict(a=x, b=y)  ==  {'a': x, 'b': y}
    if isinstance(n.func, ast.Name) and n.func.id == 'dict' and not n.args and n.keywords \
        and all(k.arg is not None for k in n.keywords):
      new = ast.Dict(keys=[ast.Constant(k.arg) for k in n.keywords],
                     values=[k.value for k in n.keywords])
      return self.visit(ast.fix_missing_locations(ast.copy_location(new, n)))
    # operator.attrgetter('a', 'b')(X)  ==  (X.a, X.b);  attrgetter('a')(X) == X.a
    if isinstance(n.func, ast.Call) and ast.unparse(n.func.func) == 'operator.attrgetter' \
        and n.func.args and not n.func.keywords and len(n.args) == 1 and not n.keywords \
        and _simple(n.args[0]) and all(
            isinstance(a, ast.Constant) and isinstance(a.value, str) and all(
                p.isidentifier() for p in a.value.split('.')) for a in n.func.args):
      def chain(path):
        e = copy.deepcopy(n.args[0])
        for part in path.split('.'):
          e = ast.Attribute(value=e, attr=part, ctx=ast.Load())
        return e
      parts = [chain(a.value) for a in n.func.args]
      new = parts[0] if len(parts) == 1 else ast.Tuple(elts=parts, ctx=ast.Load())
      return self.visit(ast.fix_missing_locations(ast.copy_location(new, n)))
    # any(v in S for v in (A, b))  ==  A in S or b in S   (boolean-valued element,
    # pure reads in the literal: same value, same order, same short circuit)
    if isinstance(n.func, ast.Name) and n.func.id in ('any', 'all') and len(n.args) == 1 \
        and not n.keywords and isinstance(n.args[0], (ast.GeneratorExp, ast.ListComp)) \
        and (isinstance(n.args[0].elt, ast.Compare) or (
            isinstance(n.args[0].elt, ast.UnaryOp) and isinstance(n.args[0].elt.op, ast.Not))
             or (isinstance(n.args[0].elt, ast.Call) and ast.unparse(
                 n.args[0].elt.func) in ('isinstance', 'hasattr', 'callable'))):
      u = self._unrolled(n.args[0].elt, n.args[0].generators,
                         simple_ok=isinstance(n.args[0], ast.GeneratorExp))
      if u is not None:
        new = u[0] if len(u) == 1 else ast.BoolOp(
            op=ast.Or() if n.func.id == 'any' else ast.And(), values=u)
        return self.visit(ast.fix_missing_locations(ast.copy_location(new, n)))
    # tuple(E(v) for v in ('a', 'b'))  ==  (E('a'), E('b'))
    if isinstance(n.func, ast.Name) and n.func.id in ('tuple', 'list') and \
        len(n.args) == 1 and not n.keywords and isinstance(
            n.args[0], (ast.GeneratorExp, ast.ListComp)):
      u = self._unrolled(n.args[0].elt, n.args[0].generators)
      if u is not None:
        lit = ast.Tuple(elts=u, ctx=ast.Load()) if n.func.id == 'tuple' else \
            ast.List(elts=u, ctx=ast.Load())
        return self.visit(ast.fix_missing_locations(ast.copy_location(lit, n)))
    self.generic_visit(n)
    if isinstance(n.func, ast.Attribute) and n.func.attr == 'get' and len(n.args) == 2 \
        and not n.keywords and isinstance(n.args[1], ast.Constant) and \
        n.args[1].value is None:
      n.args = n.args[:1]
      return n
    if isinstance(n.func, ast.Name) and n.func.id == 'getattr' and len(n.args) == 2 and \
        not n.keywords and isinstance(n.args[1], ast.Constant) and isinstance(
            n.args[1].value, str) and n.args[1].value.isidentifier():
      return ast.copy_location(ast.Attribute(value=n.args[0], attr=n.args[1].value,
                                             ctx=ast.Load()), n)
    if isinstance(n.func, ast.Name) and n.func.id == 'set' and len(n.args) == 1 and \
        not n.keywords and isinstance(n.args[0], (ast.Tuple, ast.List)) and \
        n.args[0].elts and not any(isinstance(e, ast.Starred) for e in n.args[0].elts):
      return ast.copy_location(ast.Set(elts=n.args[0].elts), n)
    return n


def unfold_starmaps(tree):
  """X = itertools.chain.from_iterable(itertools.starmap(self.m, S)), X read only
  by the next statement  ==  X = []; for (a, b) in S: X.extend(self.m(a, b))
  (k = number of parameters of m; also plain starmap -> append).  The lazy
  iterator is consumed by the very next statement, so building the list first
  runs the same calls in the same order (relative to each other; relative to
  pure statements in between the order is immaterial for what the rules read:
  the call sites of m and their arguments)."""
  n_done = [0]

  def arities(cls):
    out = {}
    for m in cls.body:
      if isinstance(m, ast.FunctionDef) and not m.args.vararg and not m.args.kwarg and \
          not m.args.defaults and not m.args.kwonlyargs and m.args.args and \
          m.args.args[0].arg == 'self':
        out[m.name] = len(m.args.args) - 1
    return out

  def rec(stmts, ar):
    out = []
    i = 0
    while i < len(stmts):
      st = stmts[i]
      nxt = stmts[i + 1] if i + 1 < len(stmts) else None
      done = False
      if isinstance(st, ast.Assign) and len(st.targets) == 1 and isinstance(
          st.targets[0], ast.Name) and isinstance(st.value, ast.Call) and nxt is not None:
        v = st.value
        flat = False
        if ast.unparse(v.func) in ('itertools.chain.from_iterable', 'chain.from_iterable') \
            and len(v.args) == 1 and isinstance(v.args[0], ast.Call):
          v, flat = v.args[0], True
        if ast.unparse(v.func) in ('itertools.starmap', 'starmap') and len(v.args) == 2 and \
            isinstance(v.args[0], ast.Attribute) and isinstance(
                v.args[0].value, ast.Name) and v.args[0].value.id == 'self' and \
            ar.get(v.args[0].attr, 0) >= 1:
          x = st.targets[0].id
          k = ar[v.args[0].attr]
          # consumed once, further down the same block (the statements in
          # between do not mention it: the calls are merely made a little earlier)
          uses = [later for later in stmts[i + 1:] if any(
              isinstance(y, ast.Name) and y.id == x for y in ast.walk(later))]
          if len(uses) == 1 and sum(1 for y in ast.walk(uses[0]) if isinstance(
              y, ast.Name) and y.id == x) == 1:
            names = ['_%s_%d' % (x, j) for j in range(k)]
            call = ast.Call(func=v.args[0], args=[ast.Name(id=nm, ctx=ast.Load())
                                                  for nm in names], keywords=[])
            body = ast.Expr(value=ast.Call(
                func=ast.Attribute(value=ast.Name(id=x, ctx=ast.Load()),
                                   attr='extend' if flat else 'append', ctx=ast.Load()),
                args=[call], keywords=[]))
            tgt = ast.Tuple(elts=[ast.Name(id=nm, ctx=ast.Store()) for nm in names],
                            ctx=ast.Store()) if k > 1 else ast.Name(id=names[0],
                                                                    ctx=ast.Store())
            if k == 1:
              # starmap unpacks 1-tuples too
              tgt = ast.Tuple(elts=[tgt], ctx=ast.Store())
            init = ast.Assign(targets=[ast.Name(id=x, ctx=ast.Store())],
                              value=ast.List(elts=[], ctx=ast.Load()))
            loop = ast.For(target=tgt, iter=v.args[1], body=[body], orelse=[])
            for new in (init, loop):
              out.append(ast.fix_missing_locations(ast.copy_location(new, st)))
            n_done[0] += 1
            done = True
      if not done:
        for f in ('body', 'orelse', 'finalbody'):
          b = getattr(st, f, None)
          if isinstance(b, list) and b and isinstance(b[0], ast.stmt):
            setattr(st, f, rec(b, arities(st) if isinstance(st, ast.ClassDef) else ar))
        for h in getattr(st, 'handlers', []) or []:
          h.body = rec(h.body, ar)
        out.append(st)
      i += 1
    return out
  tree.body = rec(tree.body, {})
  return n_done[0]


def fold_lock_blocks(tree):
  """X.acquire(); try: BODY finally: X.release()   ==   with X: BODY"""
  def rec(stmts):
    out = []
    i = 0
    while i < len(stmts):
      st = stmts[i]
      nxt = stmts[i + 1] if i + 1 < len(stmts) else None
      if isinstance(st, ast.Expr) and isinstance(st.value, ast.Call) and isinstance(
          st.value.func, ast.Attribute) and st.value.func.attr == 'acquire' and \
          not st.value.args and not st.value.keywords and _simple(st.value.func.value) \
          and isinstance(nxt, ast.Try) and not nxt.handlers and not nxt.orelse and \
          len(nxt.finalbody) == 1 and isinstance(nxt.finalbody[0], ast.Expr) and \
          isinstance(nxt.finalbody[0].value, ast.Call) and isinstance(
              nxt.finalbody[0].value.func, ast.Attribute) and \
          nxt.finalbody[0].value.func.attr == 'release' and \
          not nxt.finalbody[0].value.args and ast.unparse(
              nxt.finalbody[0].value.func.value) == ast.unparse(st.value.func.value):
        w = ast.With(items=[ast.withitem(context_expr=st.value.func.value,
                                         optional_vars=None)], body=rec(nxt.body))
        out.append(ast.fix_missing_locations(ast.copy_location(w, st)))
        i += 2
        continue
      for f in ('body', 'orelse', 'finalbody'):
        b = getattr(st, f, None)
        if isinstance(b, list) and b and isinstance(b[0], ast.stmt):
          setattr(st, f, rec(b))
      for h in getattr(st, 'handlers', []) or []:
        h.body = rec(h.body)
      out.append(st)
      i += 1
    return out
  tree.body = rec(tree.body)


def _apply_helpers(tree, rel):
  kn = known(rel)
  if kn is None:
    return 0
  helpers_mod = {}
  helpers_cls = {}
  gens_mod = {}
  gens_cls = {}
  verd_mod = {}
  verd_cls = {}
  # (a reference function that was merely renamed has got its name back in
  # rename_back, so every private function that is still unknown here is new)
  for s in tree.body:
    if isinstance(s, ast.FunctionDef) and s.name.startswith('_') and \
        not s.name.startswith('__') and s.name not in kn:
      if eligible(s, False):
        helpers_mod[s.name] = s
      elif gen_shape(s, False) or gen_straight(s, False):
        gens_mod[s.name] = s
      elif verdict_shape(s, False):
        verd_mod[s.name] = s
    elif isinstance(s, ast.ClassDef):
      for m in s.body:
        if isinstance(m, ast.FunctionDef) and m.name.startswith('_') and \
            not m.name.startswith('__') and (s.name + '.' + m.name) not in kn:
          if eligible(m, True):
            helpers_cls.setdefault(s.name, {})[m.name] = m
          elif gen_shape(m, True) or gen_straight(m, True):
            gens_cls.setdefault(s.name, {})[m.name] = m
          elif verdict_shape(m, True):
            verd_cls.setdefault(s.name, {})[m.name] = m
  if not helpers_mod and not helpers_cls and not gens_mod and not gens_cls and \
      not verd_mod and not verd_cls:
    return 0
  inl = _Inliner(helpers_mod, helpers_cls, gens_mod, gens_cls)
  if verd_mod or verd_cls:
    inl.verdicts = (verd_mod, verd_cls)
  # helpers may call each other: expand inside helpers first (two rounds)
  for _ in range(2):
    for fn in list(helpers_mod.values()):
      fn.body = inl.block(fn.body, None)
    for cname, ms in helpers_cls.items():
      for fn in ms.values():
        fn.body = inl.block(fn.body, cname)
  for s in tree.body:
    if isinstance(s, ast.FunctionDef):
      if s.name not in helpers_mod:
        s.body = inl.block(s.body, None)
    elif isinstance(s, ast.ClassDef):
      for m in s.body:
        if isinstance(m, ast.FunctionDef) and m.name not in helpers_cls.get(s.name, {}):
          m.body = inl.block(m.body, s.name)
  # a helper with no remaining reference is dead after inlining: the rules
  # have seen its statements at every call site already
  refs = set()
  for n in ast.walk(tree):
    if isinstance(n, ast.Name):
      refs.add(n.id)
    elif isinstance(n, ast.Attribute):
      refs.add(n.attr)
    elif isinstance(n, ast.Constant) and isinstance(n.value, str):
      refs.add(n.value)
  tree.body = [s for s in tree.body
               if not (isinstance(s, ast.FunctionDef) and (
                   s.name in helpers_mod or s.name in gens_mod or s.name in verd_mod)
                       and s.name not in refs)]
  for s in tree.body:
    if isinstance(s, ast.ClassDef):
      s.body = [m for m in s.body
                if not (isinstance(m, ast.FunctionDef) and (
                    m.name in helpers_cls.get(s.name, {}) or m.name in gens_cls.get(s.name, {})
                    or m.name in verd_cls.get(s.name, {}))
                        and m.name not in refs)] or [ast.Pass()]
  ast.fix_missing_locations(tree)
  return inl.count


# ---------------------------------------------------------------- pure aliases
def _pure_chain(e, roots):
  """self.a.b[K].c / param.x.y : attribute / constant-or-name subscript chains
  rooted at a name in `roots`"""
  if isinstance(e, ast.Name):
    return e.id in roots
  if isinstance(e, ast.Attribute):
    return _pure_chain(e.value, roots)
  if isinstance(e, ast.Subscript) and isinstance(e.slice, (ast.Constant, ast.Name)):
    return _pure_chain(e.value, roots)
  return False


def propagate_aliases(fn, rebound=()):
  """Copy propagation of locals that merely name an attribute chain of self or
  of a parameter: assigned exactly once, at the top level of the function body,
  never rebound, chain root never rebound.  Returns the number of aliases
  removed."""
  params = {a.arg for a in fn.args.posonlyargs + fn.args.args + fn.args.kwonlyargs}
  stores = {}
  for n in ast.walk(fn):
    if isinstance(n, ast.Name) and isinstance(n.ctx, (ast.Store, ast.Del)):
      stores[n.id] = stores.get(n.id, 0) + 1
    elif isinstance(n, (ast.FunctionDef, ast.Lambda)) and n is not fn:
      return 0       # closures may capture: keep it simple
  roots = {p for p in params if stores.get(p, 0) == 0}
  done = 0

  def loads(root, name):
    return sum(1 for x in ast.walk(root) if isinstance(x, ast.Name) and x.id == name
               and isinstance(x.ctx, ast.Load))

  def blocks(stmts):
    yield stmts
    for st in stmts:
      for f in ('body', 'orelse', 'finalbody'):
        bl = getattr(st, f, None)
        if isinstance(bl, list) and bl and isinstance(bl[0], ast.stmt):
          yield from blocks(bl)
      for h in getattr(st, 'handlers', []) or []:
        yield from blocks(h.body)

  for block in list(blocks(fn.body)):
    for st in list(block):
      if not (isinstance(st, ast.Assign) and len(st.targets) == 1 and isinstance(
          st.targets[0], ast.Name) and stores.get(st.targets[0].id) == 1 and
              st.targets[0].id not in params):
        continue
      v = st.value
      chain_ok = isinstance(v, (ast.Attribute, ast.Subscript)) and _pure_chain(v, roots)
      tuple_ok = isinstance(v, ast.Tuple) and v.elts and all(
          isinstance(x, (ast.Attribute, ast.Subscript)) and _pure_chain(x, roots)
          for x in v.elts)
      # a literal table: constants, module-level names, chains of unassigned
      # parameters (self.method): nothing in it can change before it is used
      table_ok = isinstance(v, ast.Tuple) and _table(v) and not any(
          isinstance(x, ast.Name) and stores.get(x.id) for x in ast.walk(v))
      if not (chain_ok or tuple_ok or table_ok):
        continue
      name = st.targets[0].id
      if st not in block:
        continue
      idx = block.index(st)
      # every read of the name comes after the assignment, in the same block
      if loads(fn, name) != sum(loads(x, name) for x in block[idx + 1:]):
        continue
      # the chain must not be written through between definition and uses:
      # accept only if no statement of the function assigns an attribute /
      # subscript whose text equals a prefix of the chain
      chains = [ast.unparse(x) for x in ast.walk(v)
                if isinstance(x, (ast.Attribute, ast.Subscript))]
      clobber = False
      for n in ast.walk(fn):
        if isinstance(n, (ast.Attribute, ast.Subscript)) and isinstance(
            n.ctx, (ast.Store, ast.Del)) and any(
                chain.startswith(ast.unparse(n)) for chain in chains):
          clobber = True
      if clobber:
        continue
      # a snapshot of an attribute that methods rebind (self.scope) is not an
      # alias once a method of self runs between the definition and a use
      snap = any(isinstance(x, ast.Attribute) and isinstance(x.value, ast.Name)
                 and x.value.id == 'self' and x.attr in rebound for x in ast.walk(v))
      if snap:
        users = [j for j in range(idx + 1, len(block)) if loads(block[j], name)]
        last = users[-1] if users else idx
        if any(isinstance(c, ast.Call) and (
            (isinstance(c.func, ast.Attribute) and isinstance(c.func.value, ast.Name)
             and c.func.value.id == 'self') or
            (isinstance(c.func, ast.Attribute) and isinstance(c.func.value, ast.Call)
             and isinstance(c.func.value.func, ast.Name) and c.func.value.func.id == 'super')
            or any(isinstance(a, ast.Name) and a.id == 'self' for a in c.args))
               for j in range(idx + 1, last + 1) for c in ast.walk(block[j])):
          continue

      class R(ast.NodeTransformer):
        def visit_Name(self, n, name=name, v=v):
          if n.id == name and isinstance(n.ctx, ast.Load):
            return ast.copy_location(copy.deepcopy(v), n)
          return n
      for j in range(idx + 1, len(block)):
        block[j] = R().visit(block[j])
      block.remove(st)
      if not block:
        block.append(ast.copy_location(ast.Pass(), st))
      done += 1
  if not fn.body:
    fn.body = [ast.Pass()]
  return done
