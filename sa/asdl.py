"""E1a: the ASDL grammar of the running interpreter, read from ast docstrings.

Nothing of the repository is involved: `ast.<Cls>.__doc__` is the ASDL
production (e.g. "If(expr test, stmt* body, stmt* orelse)"); sum types list
their alternatives; deprecated classes say so.
"""
import ast
import re

PRIM = {'identifier', 'int', 'string', 'constant'}


def _parse_fields(doc):
  m = re.match(r'\s*(\w+)\((.*)\)\s*$', doc.strip(), re.S)
  if not m:
    return None
  body = m.group(2).strip()
  if not body:
    return []
  out = []
  for part in body.split(','):
    t, n = part.strip().split()
    q = ''
    if t[-1] in '?*':
      q = t[-1]
      t = t[:-1]
    out.append((n, t, q))
  return out


CLASSES = {
    n: getattr(ast, n)
    for n in dir(ast)
    if isinstance(getattr(ast, n), type) and issubclass(getattr(ast, n), ast.AST)
}
FIELDS = {}   # constructor -> [(field, type, quantifier)]
SUMS = {}     # sum type -> [constructor]
DEAD = set()  # deprecated / never instantiated classes

for _n, _c in CLASSES.items():
  _d = _c.__doc__ or ''
  if _d.startswith('Deprecated'):
    DEAD.add(_n)
    continue
  if _d.startswith(_n + '('):
    FIELDS[_n] = _parse_fields(_d)
  elif re.match(r'\s*%s\s*=' % _n, _d):
    _alts = re.split(r'\|', _d.split('=', 1)[1])
    _names = []
    for _a in _alts:
      _a = _a.strip()
      _m = re.match(r'(\w+)', _a)
      if _m:
        _names.append(_m.group(1))
        _fm = _parse_fields(_a) if '(' in _a else []
        FIELDS.setdefault(_m.group(1), _fm if _fm is not None else [])
    SUMS[_n] = _names
for _n, _c in CLASSES.items():
  if _n not in FIELDS and _n not in SUMS and _n not in DEAD and _n != 'AST':
    if _c._fields == ():
      FIELDS[_n] = []
    else:
      DEAD.add(_n)
# classes that are only abstract bases without docstring production
for _n in list(FIELDS):
  if _n in SUMS:
    del FIELDS[_n]

STMT_KINDS = list(SUMS['stmt'])
EXPR_KINDS = list(SUMS['expr'])


def alts(t):
  return SUMS.get(t, [t])


def sum_of(kind):
  for s, ks in SUMS.items():
    if kind in ks:
      return s
  return kind


def fields(kind):
  return FIELDS.get(kind) or []


def field(kind, name):
  for f in fields(kind):
    if f[0] == name:
      return f
  return None


def can_derive(t, kinds, _seen=None):
  """True iff a value of ASDL type t can (transitively) contain a node in kinds."""
  seen = _seen if _seen is not None else set()
  if t in PRIM:
    return False
  for a in alts(t):
    if a in kinds:
      return True
    if a in seen:
      continue
    seen.add(a)
    for (_, ft, _) in fields(a):
      if can_derive(ft, kinds, seen):
        return True
  return False


def required_fields(kind):
  return [f for f in fields(kind) if f[2] == '']


def stmt_list_fields():
  """(kind, field) for every field of type stmt* in the grammar."""
  return [(k, f) for k in FIELDS for (f, t, q) in fields(k)
          if t == 'stmt' and q == '*']


if __name__ == '__main__':
  print(len(FIELDS), 'constructors;', len(SUMS), 'sum types; dead:', sorted(DEAD))
  print(STMT_KINDS)
