"""E2: template model.

Finds every place where the converter turns a *string* into code
(`templates.replace`, `templates.replace_as_expression`,
`parser.parse_expression`, `parser.parse_str`), resolves the string at the call
site to the finite family of concrete texts it can take (literals, f-strings
over finite pieces, `.replace()` chains, conditional expressions, `.format()`
of finite pieces — through reaching definitions of the locals involved),
parses each text and classifies every identifier in it.
"""
import ast
import itertools
import textwrap

from sa import core
from sa import pycfg

FMT = 'FMT__'   # stands for an unresolvable formatted piece (an identifier)

TEMPLATE_APIS = {
    'malt.pyct.templates.replace': 'replace',
    'malt.pyct.templates.replace_as_expression': 'replace_as_expression',
    'malt.pyct.parser.parse_expression': 'parse_expression',
    'malt.pyct.parser.parse_str': 'parse_str',
}


class ReachingDefs:
  """Reaching definitions of local names over the statement CFG of a function."""

  def __init__(self, fn):
    self.fn = fn
    self.cfg = pycfg.CFG(fn)
    g = self.cfg
    self.defs_at = {}   # node -> {name: set(def ids)}
    self.def_val = {}   # def id -> value expr or None (unknown)
    gen = {}
    for i, (k, a) in enumerate(g.nodes):
      gen[i] = {}
      if a is None:
        continue
      for nm, val in self._defs_of(k, a):
        d = len(self.def_val)
        self.def_val[d] = val
        gen[i][nm] = d
    # parameters
    pdefs = {}
    for arg in fn.args.posonlyargs + fn.args.args + fn.args.kwonlyargs:
      d = len(self.def_val)
      self.def_val[d] = ('param', arg.arg)
      pdefs[arg.arg] = {d}
    IN = {i: {} for i in range(len(g.nodes))}
    OUT = {i: {} for i in range(len(g.nodes))}
    IN[g.entry] = pdefs
    pred = g.preds()
    work = list(range(len(g.nodes)))
    while work:
      i = work.pop(0)
      cur = dict(pdefs) if i == g.entry else {}
      for p, _ in pred[i]:
        for nm, ds in OUT[p].items():
          cur.setdefault(nm, set())
          cur[nm] = cur[nm] | ds
      IN[i] = cur
      out = {nm: set(ds) for nm, ds in cur.items()}
      for nm, d in gen[i].items():
        out[nm] = {d}
      if out != OUT[i]:
        OUT[i] = out
        for b, _ in g.succ[i]:
          if b not in work:
            work.append(b)
    self.IN = IN
    self.OUT = OUT
    self.node_of_stmt = {}
    for i, (k, a) in enumerate(g.nodes):
      if a is not None:
        for e in g.exprs_of(i):
          for n in ast.walk(e):
            self.node_of_stmt.setdefault(id(n), i)

  @staticmethod
  def _defs_of(kind, a):
    out = []
    if kind == 'stmt':
      if isinstance(a, ast.Assign):
        for t in a.targets:
          if isinstance(t, ast.Name):
            out.append((t.id, a.value))
          else:
            for n in ast.walk(t):
              if isinstance(n, ast.Name) and isinstance(n.ctx, ast.Store):
                out.append((n.id, ('unpack', a.value, t)))
      elif isinstance(a, ast.AugAssign) and isinstance(a.target, ast.Name):
        out.append((a.target.id, ('aug', a)))
      elif isinstance(a, ast.AnnAssign) and isinstance(a.target, ast.Name) and a.value:
        out.append((a.target.id, a.value))
    elif kind == 'with':
      for it in a.items:
        if isinstance(it.optional_vars, ast.Name):
          out.append((it.optional_vars.id, ('with', it.context_expr)))
    elif kind == 'def':
      out.append((a.name, ('def', a)))
    return out

  def reaching(self, expr_node, name):
    """Definitions (value exprs) of `name` reaching the statement holding expr_node."""
    i = self.node_of_stmt.get(id(expr_node))
    if i is None:
      return None
    ds = self.IN[i].get(name)
    if not ds:
      return []
    return [self.def_val[d] for d in ds]


_RD_CACHE = {}


def rdefs(fn):
  r = _RD_CACHE.get(id(fn))
  if r is None:
    r = _RD_CACHE[id(fn)] = ReachingDefs(fn)
  return r


class StrEval:
  """Finite-set evaluation of string-valued expressions."""

  def __init__(self, model, fi):
    self.model = model
    self.fi = fi
    self.rd = rdefs(fi.node)
    # loop variables over literal tuples/dicts (for k in TABLE)
    self.unresolved = []

  def ev(self, e, at, depth=0):
    """Returns a set of strings, or None if not finitely resolvable."""
    if depth > 8:
      return None
    if isinstance(e, ast.Constant) and isinstance(e.value, str):
      return {e.value}
    if isinstance(e, ast.Name):
      defs = self.rd.reaching(at, e.id)
      if defs is None:
        return None
      if not defs:
        r = self.model.resolve(self.fi.module, e)
        if r and r[0] == 'var':
          v = r[1].assigns.get(r[2])
          if isinstance(v, ast.Constant) and isinstance(v.value, str):
            return {v.value}
        return None
      out = set()
      for d in defs:
        if isinstance(d, tuple):
          return None
        r = self.ev(d, d, depth + 1)
        if r is None:
          return None
        out |= r
      return out
    if isinstance(e, ast.JoinedStr):
      parts = [{''}]
      pieces = []
      for v in e.values:
        if isinstance(v, ast.Constant):
          pieces.append({v.value})
        else:
          r = self.ev(v.value, at, depth + 1)
          pieces.append(r if r is not None else {FMT})
      out = set()
      for combo in itertools.product(*pieces):
        out.add(''.join(combo))
      return out
    if isinstance(e, ast.IfExp):
      a = self.ev(e.body, at, depth + 1)
      b = self.ev(e.orelse, at, depth + 1)
      if a is None or b is None:
        return None
      return a | b
    if isinstance(e, ast.BinOp) and isinstance(e.op, ast.Add):
      a = self.ev(e.left, at, depth + 1)
      b = self.ev(e.right, at, depth + 1)
      if a is None or b is None:
        return None
      return {x + y for x in a for y in b}
    if isinstance(e, ast.Call) and isinstance(e.func, ast.Attribute):
      m = e.func.attr
      if m == 'replace' and len(e.args) == 2:
        base = self.ev(e.func.value, at, depth + 1)
        a = self.ev(e.args[0], at, depth + 1)
        b = self.ev(e.args[1], at, depth + 1)
        if base is None or a is None or b is None:
          return None
        return {s.replace(x, y) for s in base for x in a for y in b}
      if m == 'format':
        base = self.ev(e.func.value, at, depth + 1)
        if base is None:
          return None
        args = []
        for a in e.args:
          r = self.ev(a, at, depth + 1)
          args.append(r if r is not None else {FMT})
        out = set()
        for s in base:
          for combo in itertools.product(*args):
            try:
              out.add(s.format(*combo))
            except (IndexError, KeyError):
              return None
        return out
    return None


class Template:

  def __init__(self, text, kwargs):
    self.text = text
    self.kwargs = set(kwargs)
    self.tree = ast.parse(textwrap.dedent(text))
    self.loads = {}
    self.stores = {}
    self.args = {}
    self.defs = {}
    self.attrs = set()
    self.kwnames = set()
    self.decls = set()
    for n in ast.walk(self.tree):
      if isinstance(n, ast.Name):
        (self.stores if isinstance(n.ctx, (ast.Store, ast.Del)) else
         self.loads).setdefault(n.id, []).append(n)
      elif isinstance(n, ast.arg):
        self.args.setdefault(n.arg, []).append(n)
      elif isinstance(n, (ast.FunctionDef, ast.ClassDef)):
        self.defs.setdefault(n.name, []).append(n)
      elif isinstance(n, ast.Attribute):
        self.attrs.add(n.attr)
      elif isinstance(n, ast.keyword) and n.arg:
        self.kwnames.add(n.arg)
      elif isinstance(n, (ast.Global, ast.Nonlocal)):
        self.decls |= set(n.names)
      elif isinstance(n, ast.ExceptHandler) and n.name:
        self.stores.setdefault(n.name, []).append(n)
      elif isinstance(n, ast.alias):
        self.stores.setdefault((n.asname or n.name).split('.')[0], []).append(n)

  @property
  def identifiers(self):
    return set(self.loads) | set(self.stores) | set(self.args) | set(self.defs)

  @property
  def placeholders(self):
    return (self.identifiers | self.attrs | self.kwnames) & self.kwargs

  @property
  def literal_binders(self):
    return (set(self.stores) | set(self.args) | set(self.defs)) - self.kwargs

  @property
  def literal_free(self):
    bound = set(self.stores) | set(self.args) | set(self.defs)
    return set(self.loads) - self.kwargs - bound

  def functions(self):
    return [n for n in ast.walk(self.tree) if isinstance(n, ast.FunctionDef)]


class Site:

  def __init__(self, fi, call, api, texts, kwargs, unresolved=None):
    self.fi = fi
    self.call = call
    self.api = api
    self.kwargs = kwargs      # name -> value expr
    self.unresolved = unresolved
    self.templates = []
    self.syntax_errors = []
    for t in sorted(texts or ()):
      try:
        self.templates.append(Template(t, kwargs))
      except SyntaxError as e:
        self.syntax_errors.append((t, str(e)))

  @property
  def key(self):
    return '%s:%s' % (self.fi.site, self.api)

  def __repr__(self):
    return '<tpl %s line %d %s>' % (self.fi.site, self.call.lineno, self.api)


def _const_str(e):
  """value of an expression built from constants only (str + / % / f-string)"""
  if any(not isinstance(x, (ast.Constant, ast.BinOp, ast.Add, ast.Mod, ast.JoinedStr,
                            ast.FormattedValue, ast.Tuple, ast.Load, ast.expr_context))
         for x in ast.walk(e)):
    return None
  try:
    v = eval(compile(ast.fix_missing_locations(ast.Expression(body=e)), '<const>', 'eval'),
             {'__builtins__': {}}, {})
  except Exception:
    return None
  return v if isinstance(v, str) else None


def _star_kwargs(fi, e, at):
  """placeholders passed as **mapping: a dict display with constant keys, or a
  dict comprehension over a literal tuple of constants, directly or through a
  local that names it"""
  import copy
  if isinstance(e, ast.Name):
    ds = rdefs(fi.node).reaching(at, e.id)
    if not ds or len(ds) != 1 or not isinstance(ds[0], ast.AST):
      return {}
    e = ds[0]
  out = {}
  if isinstance(e, ast.Dict):
    for k, v in zip(e.keys, e.values):
      if isinstance(k, ast.Constant) and isinstance(k.value, str):
        out[k.value] = v
    return out
  if isinstance(e, ast.DictComp) and len(e.generators) == 1 and not e.generators[0].ifs \
      and isinstance(e.generators[0].target, ast.Name) and isinstance(
          e.generators[0].iter, (ast.Tuple, ast.List)) and all(
              isinstance(x, ast.Constant) for x in e.generators[0].iter.elts):
    from sa import inline
    var = e.generators[0].target.id
    for c in e.generators[0].iter.elts:
      class R(ast.NodeTransformer):
        def visit_Name(self, x):
          if x.id == var and isinstance(x.ctx, ast.Load):
            return ast.copy_location(ast.Constant(c.value), x)
          return x
      key = _const_str(R().visit(copy.deepcopy(e.key)))
      if key is None:
        return {}
      val = inline._Idioms().visit(R().visit(copy.deepcopy(e.value)))
      ast.fix_missing_locations(ast.copy_location(val, e))
      out[key] = val
  return out


def find_sites(model, rels=None):
  """All template sites in the given modules (default: whole package)."""
  sites = []
  mods = [model.module(r) for r in rels] if rels else list(model.modules.values())
  for m in mods:
    for fi in m.all_functions():
      evaluator = None
      for n in core.walk_no_nested(fi.node):
        if not isinstance(n, ast.Call):
          continue
        r = model.resolve(m, n.func) if core.dotted(n.func) else None
        if not r or r[0] != 'func':
          continue
        full = r[1].module.name + '.' + r[1].name
        api = TEMPLATE_APIS.get(full)
        if api is None or not n.args:
          continue
        if evaluator is None:
          evaluator = StrEval(model, fi)
        texts = evaluator.ev(n.args[0], n)
        kwargs = {k.arg: k.value for k in n.keywords if k.arg}
        for k in n.keywords:
          if k.arg is None:
            kwargs.update(_star_kwargs(fi, k.value, n))
        sites.append(Site(fi, n, api, texts, kwargs,
                          unresolved=None if texts is not None else
                          ast.unparse(n.args[0])))
  return sites


# ---------------------------------------------------------------- provenance
def origin(model, fi, expr, at, depth=0):
  """Where the value of a replacement expression comes from.

  Returns a set of tags: 'namer' (Namer.new_symbol result), 'user' (a field of
  the node being converted), 'const' (ast.Constant), 'generated' (result of
  another template / hand-built node), 'literal:<s>' (a literal identifier
  string), 'unknown'.
  """
  if depth > 6:
    return {'unknown'}
  if isinstance(expr, ast.Constant) and isinstance(expr.value, str):
    return {'literal:' + expr.value}
  if isinstance(expr, ast.Call):
    d = core.dotted(expr.func) or ''
    if d.endswith('namer.new_symbol') or d.endswith('.new_symbol'):
      return {'namer'}
    r = model.resolve(fi.module, expr.func) if core.dotted(expr.func) else None
    if r and r[0] == 'func':
      full = r[1].module.name + '.' + r[1].name
      if full in TEMPLATE_APIS:
        return {'generated'}
    if d.startswith('ast.'):
      if d == 'ast.Constant':
        return {'const'}
      return {'generated'}
    if d in ('tuple', 'list') and expr.args:
      return origin(model, fi, expr.args[0], at, depth + 1)
    if d in ('self.generic_visit', 'self.visit') and len(expr.args) == 1:
      # the visitor hands back the (possibly rewritten) node it was given
      return origin(model, fi, expr.args[0], at, depth + 1)
    if d.startswith('self._') or d.startswith('self.'):
      return {'generated'}
    if d in ('str',):
      return {'unknown'}
    return {'unknown'}
  if isinstance(expr, ast.Attribute):
    base = expr
    while isinstance(base, ast.Attribute):
      base = base.value
    if isinstance(base, ast.Name):
      ps = fi.params()
      if base.id in ps:
        return {'user'}
      sub = origin(model, fi, base, at, depth + 1)
      return sub
    return {'unknown'}
  if isinstance(expr, ast.Name):
    defs = rdefs(fi.node).reaching(at, expr.id)
    if defs:
      out = set()
      for d in defs:
        if isinstance(d, tuple):
          if d[0] == 'param':
            out.add('user')
          elif d[0] == 'unpack':
            out |= origin(model, fi, d[1], d[1], depth + 1)
          else:
            out.add('unknown')
        else:
          out |= origin(model, fi, d, d, depth + 1)
      return out
    if expr.id in fi.params():
      return {'user'}
    return {'unknown'}
  if isinstance(expr, (ast.Tuple, ast.List)):
    out = set()
    for el in expr.elts:
      out |= origin(model, fi, el, at, depth + 1)
    return out or {'generated'}
  if isinstance(expr, (ast.GeneratorExp, ast.ListComp)):
    return origin(model, fi, expr.elt, at, depth + 1)
  if isinstance(expr, ast.IfExp):
    return origin(model, fi, expr.body, at, depth + 1) | origin(
        model, fi, expr.orelse, at, depth + 1)
  if isinstance(expr, ast.BoolOp):
    out = set()
    for v in expr.values:
      out |= origin(model, fi, v, at, depth + 1)
    return out
  return {'unknown'}


# ---------------------------------------------------------------- expansion
class _Subst(ast.NodeTransformer):

  def __init__(self, fi, at, depth, bound):
    self.fi = fi
    self.at = at
    self.depth = depth
    self.bound = set(bound)

  def visit_Name(self, n):
    if not isinstance(n.ctx, ast.Load) or n.id in self.bound or self.depth <= 0:
      return n
    ds = rdefs(self.fi.node).reaching(self.at, n.id)
    if not ds or len(ds) != 1 or isinstance(ds[0], tuple):
      return n
    d = ds[0]
    if any(isinstance(x, (ast.Yield, ast.Await)) for x in ast.walk(d)):
      return n
    # `xs = []` filled by one append per element of a loop == a comprehension
    if isinstance(d, ast.List) and not d.elts:
      lm = listmap(self.fi.node, n.id)
      if lm is not None:
        import copy as _copy
        tgt, src, elt = lm
        comp = ast.ListComp(
            elt=_copy.deepcopy(elt),
            generators=[ast.comprehension(target=_copy.deepcopy(tgt),
                                          iter=_copy.deepcopy(src), ifs=[], is_async=0)])
        # expand the source at the loop, the element with the loop variable bound
        bound = {x.id for x in ast.walk(tgt) if isinstance(x, ast.Name)}
        comp.generators[0].iter = _Subst(self.fi, src, self.depth - 1,
                                         self.bound).visit(comp.generators[0].iter)
        comp.elt = _Subst(self.fi, elt, self.depth - 1,
                          self.bound | bound).visit(comp.elt)
        return self._comp(comp) if hasattr(self, '_comp') else comp
    # `node = self.generic_visit(node)` / `x = self.visit(x)` keep the identity
    if isinstance(d, ast.Call) and isinstance(d.func, ast.Attribute) and \
        d.func.attr in ('generic_visit', 'visit') and len(d.args) == 1 and \
        isinstance(d.args[0], ast.Name) and d.args[0].id == n.id:
      return n
    sub = _Subst(self.fi, d, self.depth - 1, self.bound)
    import copy
    return sub.visit(copy.deepcopy(d))

  def _comp(self, n):
    import copy
    n = copy.deepcopy(n)
    # canonical names for comprehension variables
    names = []
    for g in n.generators:
      for x in ast.walk(g.target):
        if isinstance(x, ast.Name):
          names.append(x.id)
    ren = {nm: '_c%d' % i for i, nm in enumerate(dict.fromkeys(names))}
    first = True
    inner = _Subst(self.fi, self.at, self.depth, self.bound | set(ren.values()))
    for g in n.generators:
      g.iter = (self if first else inner).visit(_ren(g.iter, ren if not first else {}))
      first = False
      g.target = _ren(g.target, ren)
      g.ifs = [inner.visit(_ren(i, ren)) for i in g.ifs]
    if isinstance(n, ast.DictComp):
      n.key = inner.visit(_ren(n.key, ren))
      n.value = inner.visit(_ren(n.value, ren))
    else:
      n.elt = inner.visit(_ren(n.elt, ren))
    return n

  def visit_ListComp(self, n):
    return self._comp(n)

  def visit_SetComp(self, n):
    return self._comp(n)

  def visit_GeneratorExp(self, n):
    return self._comp(n)

  def visit_DictComp(self, n):
    return self._comp(n)

  def visit_Lambda(self, n):
    import copy
    n = copy.deepcopy(n)
    ps = [a.arg for a in n.args.args]
    ren = {p: '_l%d' % i for i, p in enumerate(ps)}
    for a in n.args.args:
      a.arg = ren[a.arg]
    inner = _Subst(self.fi, self.at, self.depth, self.bound | set(ren.values()))
    n.body = inner.visit(_ren(n.body, ren))
    return n


class _Ren(ast.NodeTransformer):

  def __init__(self, ren):
    self.ren = ren

  def visit_Name(self, n):
    if n.id in self.ren:
      return ast.copy_location(ast.Name(self.ren[n.id], n.ctx), n)
    return n


def _ren(node, ren):
  if not ren:
    return node
  import copy
  return _Ren(ren).visit(copy.deepcopy(node))


def expand(fi, expr, at=None, depth=6):
  """expr with every local name replaced by its (unique) reaching definition,
  recursively; comprehension / lambda variables canonicalised.  Independent of
  the names chosen for locals."""
  import copy
  return _Subst(fi, at if at is not None else expr, depth, ()).visit(
      copy.deepcopy(expr))


def xnorm(fi, expr, at=None, depth=6):
  return ast.unparse(expand(fi, expr, at, depth))


# ---------------------------------------------------------------- list maps
def listmap(fn_node, name):
  """How the local list `name` is built from another sequence, one element per
  source element, in order.  Understands
      name = [ELT for T in SRC]                      (no filter, one generator)
      name = []; for T in SRC: <exactly one name.append(X) on every path>
  and returns (target_node, source_node, elt_expr) with the loop form folded
  into a conditional expression, or None."""
  for st in fn_node.body:
    if isinstance(st, ast.Assign) and len(st.targets) == 1 and isinstance(
        st.targets[0], ast.Name) and st.targets[0].id == name and isinstance(
            st.value, ast.ListComp) and len(st.value.generators) == 1 and \
        not st.value.generators[0].ifs:
      g = st.value.generators[0]
      return g.target, g.iter, st.value.elt
  init = False
  for st in fn_node.body:
    if isinstance(st, ast.Assign) and len(st.targets) == 1 and isinstance(
        st.targets[0], ast.Name) and st.targets[0].id == name and isinstance(
            st.value, ast.List) and not st.value.elts:
      init = True
    if init and isinstance(st, ast.For) and not st.orelse:
      elt = _fold_appends(st.body, name)
      if elt is not None:
        return st.target, st.iter, elt
  return None


def _fold_appends(stmts, name):
  """the single value appended to `name` on every path through stmts, as an
  expression (if/else -> IfExp), or None"""
  # statements that neither mention the list nor leave the block do not take
  # part in building it (another accumulator filled in the same pass)
  stmts = [x for x in stmts if any(
      isinstance(n, ast.Name) and n.id == name for n in ast.walk(x)) or any(
          isinstance(n, (ast.Break, ast.Continue, ast.Return, ast.Raise))
          for n in ast.walk(x))]
  if len(stmts) != 1:
    return None
  s = stmts[0]
  if isinstance(s, ast.Expr) and isinstance(s.value, ast.Call) and isinstance(
      s.value.func, ast.Attribute) and s.value.func.attr == 'append' and isinstance(
          s.value.func.value, ast.Name) and s.value.func.value.id == name and \
      len(s.value.args) == 1:
    return s.value.args[0]
  if isinstance(s, ast.If) and s.orelse:
    a = _fold_appends(s.body, name)
    b = _fold_appends(s.orelse, name)
    if a is not None and b is not None:
      return ast.IfExp(test=s.test, body=a, orelse=b)
  return None
