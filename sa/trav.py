"""Traversal analysis of visitor handlers (rules TRAV / RECURSE / BLOCKS).

For a handler `visit_P(self, node)` computes, per normal exit (return statement
or fall-through), the set of field paths of `node` that have certainly been
handed to the visitor machinery on every path reaching that exit:
  'f'      self.visit(node.f) / self.visit_block(node.f) / a loop visiting every
           element of node.f          (the node(s) in f are dispatched)
  'f.*'    self.generic_visit(node.f) (children of f visited, f itself not dispatched)
  'f.g'    the same for sub-fields of a product-typed field (node.args.defaults)
  '*'      self.generic_visit(node)   (every field dispatched)
Helpers of the same class (through the MRO) are inlined with the paths of their
arguments.  `visit_block`-style helpers may pass callbacks: recorded as the
"block visitor" used for a path (needed by the BLOCKS rule).
"""
import ast

from sa import asdl
from sa import core

ALL = '*'
MAXDEPTH = 4


class Exit:

  def __init__(self, node, paths, how, guards):
    self.node = node          # ast.Return or None (fall through)
    self.paths = paths        # dict path -> set of visitor names used
    self.how = how            # 'return' | 'fallthrough'
    self.guards = guards      # list of normalised enclosing tests (polarity, text)
    self.value = node.value if isinstance(node, ast.Return) else None

  @property
  def line(self):
    return self.node.lineno if self.node is not None else None


class HandlerTraversal:

  def __init__(self, model, cls):
    self.model = model
    self.cls = cls

  # ---------------------------------------------------------------- API
  def analyse(self, fi, argpaths=None):
    """-> list of Exit for the function, with node param mapped to ''."""
    ps = fi.params()
    env = dict(argpaths) if argpaths is not None else {ps[0]: ''}
    exits = []
    st = self._block(fi.node.body, env, {}, exits, fi, 0, [])
    if st is not None:
      exits.append(Exit(None, st, 'fallthrough', []))
    return exits

  # ---------------------------------------------------------------- internals
  def _path(self, e, env):
    """Field path of an expression relative to the handler's node, or None."""
    parts = []
    while isinstance(e, ast.Attribute):
      parts.append(e.attr)
      e = e.value
    if isinstance(e, ast.Name) and e.id in env:
      base = env[e.id]
      if base is None:
        return None
      tail = '.'.join(reversed(parts))
      if not tail:
        return base
      return tail if base == '' else base + '.' + tail
    return None

  @staticmethod
  def _merge(a, b):
    if a is None:
      return b
    if b is None:
      return a
    out = {}
    for k in a:
      if k in b:
        out[k] = a[k] | b[k]
      elif ALL in b:       # the other branch dispatched every field
        out[k] = a[k] | b[ALL]
    for k in b:
      if k not in a and ALL in a:
        out[k] = b[k] | a[ALL]
    return out

  def _gen_expr(self, e, env, acc, fi, depth):
    """Adds to acc the paths traversed by evaluating expression e."""
    if e is None:
      return
    if isinstance(e, (ast.Lambda,)):
      return
    if isinstance(e, ast.IfExp):
      self._gen_expr(e.test, env, acc, fi, depth)
      p = self._presence(e.test, env)
      a1, a2 = dict(), dict()
      self._gen_expr(e.body, env, a1, fi, depth)
      self._gen_expr(e.orelse, env, a2, fi, depth)
      if p is not None:
        path, pos = p
        (a2 if pos else a1).setdefault(path, set()).add('<absent>')
      for k in a1:
        if k in a2:
          acc.setdefault(k, set()).update(a1[k] | a2[k])
      return
    if isinstance(e, ast.BoolOp):
      self._gen_expr(e.values[0], env, acc, fi, depth)
      return
    if isinstance(e, (ast.ListComp, ast.GeneratorExp, ast.SetComp)):
      if len(e.generators) == 1 and not e.generators[0].ifs:
        g = e.generators[0]
        src, tgt = self._iter_source(g.iter, g.target, env)
        if src is not None and tgt is not None:
          env2 = dict(env)
          env2[tgt] = '@elem'
          sub = {}
          self._gen_expr(e.elt, env2, sub, fi, depth)
          if '@elem' in sub:
            acc.setdefault(src, set()).update(sub['@elem'])
          return
      return
    if isinstance(e, ast.Call):
      self._gen_call(e, env, acc, fi, depth)
      for a in e.args:
        self._gen_expr(a, env, acc, fi, depth)
      for k in e.keywords:
        if not (k.arg in ('after_visit', 'before_visit')):
          self._gen_expr(k.value, env, acc, fi, depth)
      if isinstance(e.func, ast.Attribute):
        self._gen_expr(e.func.value, env, acc, fi, depth)
      return
    for ch in ast.iter_child_nodes(e):
      if isinstance(ch, ast.expr):
        self._gen_expr(ch, env, acc, fi, depth)
      elif isinstance(ch, (ast.keyword,)):
        self._gen_expr(ch.value, env, acc, fi, depth)

  def _gen_call(self, c, env, acc, fi, depth):
    f = c.func
    name = None
    is_self = False
    if isinstance(f, ast.Attribute):
      name = f.attr
      if isinstance(f.value, ast.Name) and f.value.id == 'self':
        is_self = True
      elif isinstance(f.value, ast.Call) and isinstance(f.value.func, ast.Name) \
          and f.value.func.id == 'super':
        is_self = 'super'
      elif core.dotted(f.value) in ('ast.NodeTransformer', 'ast.NodeVisitor'):
        is_self = 'base'
    if not is_self or not c.args:
      return
    args = c.args[1:] if is_self == 'base' else c.args
    if not args:
      return
    p = self._path(args[0], env)
    if name in ('visit', 'visit_block'):
      if p is not None:
        how = name
        for k in c.keywords:
          if k.arg == 'after_visit':
            how = 'visit_block+' + core.norm(k.value)
        acc.setdefault(p, set()).add(how)
      return
    if name == 'generic_visit':
      if p is not None:
        acc.setdefault(ALL if p == '' else p + '.*', set()).add('generic_visit')
      return
    if is_self == 'super' or is_self == 'base':
      if name.startswith('visit_') and p == '':
        # parent's handler: resolve beyond the current class
        h = None
        seen_self = False
        for cc in self.cls.mro():
          if isinstance(cc, core.ClassInfo):
            if cc is fi.cls:
              seen_self = True
              continue
            if seen_self and name in cc.methods:
              h = cc.methods[name]
              break
        if h is None:
          acc.setdefault(ALL, set()).add('generic_visit')
        elif depth < MAXDEPTH:
          self._inline(h, [args[0]], [], env, acc, depth)
      return
    if is_self is True:
      h = self.cls.find(name)
      if h is None or depth >= MAXDEPTH:
        return
      if name.startswith('visit_'):
        # explicit dispatch to a sibling handler with the same node
        if p is not None:
          self._inline(h, list(args), c.keywords, env, acc, depth)
        return
      self._inline(h, list(args), c.keywords, env, acc, depth)

  def _inline(self, h, args, keywords, env, acc, depth):
    hp = h.params()
    amap = {}
    extra = {}
    given = {}
    for pn, a in zip(hp, args):
      given[pn] = a
    for k in keywords:
      if k.arg in hp:
        given[k.arg] = k.value
    # defaults of parameters that were not passed
    a_ = h.node.args
    pos = [x.arg for x in a_.posonlyargs + a_.args]
    for pn, d in zip(pos[len(pos) - len(a_.defaults):], a_.defaults):
      if pn in hp and pn not in given:
        given[pn] = d
    for x, d in zip(a_.kwonlyargs, a_.kw_defaults):
      if d is not None and x.arg in hp and x.arg not in given:
        given[x.arg] = d
    for pn, a in given.items():
      amap[pn] = self._path(a, env)
      if isinstance(a, ast.Constant) and (a.value is None or isinstance(a.value, bool)):
        extra['#const:' + pn] = a.value
      elif isinstance(a, ast.Name) and ('#const:' + a.id) in env:
        extra['#const:' + pn] = env['#const:' + a.id]
      elif isinstance(a, (ast.Tuple, ast.List)):
        extra['#lit:' + pn] = (a, env)
      elif isinstance(a, ast.Name) and ('#lit:' + a.id) in env:
        extra['#lit:' + pn] = env['#lit:' + a.id]
    if not any(v is not None for v in amap.values()) and not any(
        k.startswith('#lit:') for k in extra):
      return
    amap.update(extra)
    exits = []
    st = self._block(h.node.body, amap, {}, exits, h, depth + 1, [])
    res = st
    for ex in exits:
      res = self._merge(res, ex.paths) if res is not None else ex.paths
    if res:
      for k, v in res.items():
        acc.setdefault(k, set()).update(v)
        if any(x.startswith('visit') for x in v):
          acc[k].add('via:' + h.name)

  def _presence(self, test, env):
    """test is a presence check of a path: -> (path, positive?)"""
    t = test
    pos = True
    if isinstance(t, ast.UnaryOp) and isinstance(t.op, ast.Not):
      t = t.operand
      pos = False
    if isinstance(t, ast.Compare) and len(t.ops) == 1 and isinstance(
        t.comparators[0], ast.Constant) and t.comparators[0].value is None:
      p = self._path(t.left, env)
      if p is None:
        return None
      if isinstance(t.ops[0], ast.IsNot):
        return p, pos
      if isinstance(t.ops[0], ast.Is):
        return p, not pos
      return None
    p = self._path(t, env)
    if p is not None and p != '':
      return p, pos
    return None

  @staticmethod
  def _const_test(t, env):
    neg = False
    if isinstance(t, ast.UnaryOp) and isinstance(t.op, ast.Not):
      t, neg = t.operand, True
    if isinstance(t, ast.Name) and ('#const:' + t.id) in env:
      v = bool(env['#const:' + t.id])
      return (not v) if neg else v
    return None

  def _returns_first_param(self, h):
    ps = h.params()
    if not ps:
      return False
    rets = [n for n in core.walk_no_nested(h.node) if isinstance(n, ast.Return)]
    return bool(rets) and all(isinstance(r.value, ast.Name) and r.value.id == ps[0]
                              for r in rets)

  def _iter_source(self, it, target, env):
    tgt = target
    src_e = it
    if isinstance(it, ast.Call) and isinstance(it.func, ast.Name) and \
        it.func.id in ('enumerate', 'list', 'tuple', 'reversed') and it.args:
      src_e = it.args[0]
      if it.func.id == 'enumerate':
        tgt = target.elts[-1] if isinstance(target, ast.Tuple) and target.elts else None
    src = self._path(src_e, env)
    if isinstance(tgt, ast.Name):
      return src, tgt.id
    return src, None

  def _stmt_exprs(self, s):
    out = []
    for ch in ast.iter_child_nodes(s):
      if isinstance(ch, ast.expr):
        out.append(ch)
    return out

  @staticmethod
  def _terminates(stmts):
    if not stmts:
      return False
    last = stmts[-1]
    if isinstance(last, (ast.Return, ast.Raise)):
      return True
    if isinstance(last, ast.If):
      return HandlerTraversal._terminates(last.body) and \
          HandlerTraversal._terminates(last.orelse)
    return False

  def _block(self, stmts, env, cur, exits, fi, depth, guards):
    cur = dict(cur)
    env = dict(env)
    guards = list(guards)
    for s in stmts:
      cur = self._stmt(s, env, cur, exits, fi, depth, guards)
      if cur is None:
        return None
      # `if c: ...return` followed by more statements: those run under not c
      if isinstance(s, ast.If):
        if self._terminates(s.body) and not self._terminates(s.orelse):
          guards = guards + [('F', core.norm(s.test))]
        elif self._terminates(s.orelse) and not self._terminates(s.body):
          guards = guards + [('T', core.norm(s.test))]
    return cur

  def _stmt(self, s, env, cur, exits, fi, depth, guards):
    if isinstance(s, (ast.FunctionDef, ast.ClassDef, ast.Pass, ast.Global,
                      ast.Nonlocal, ast.Import, ast.ImportFrom)):
      return cur
    if isinstance(s, ast.Return):
      acc = dict(cur)
      self._gen_expr(s.value, env, acc, fi, depth)
      exits.append(Exit(s, acc, 'return', list(guards)))
      return None
    if isinstance(s, ast.Raise):
      return None
    if isinstance(s, ast.If):
      cv = self._const_test(s.test, env)
      if cv is not None:
        return self._block(s.body if cv else s.orelse, env, cur, exits, fi,
                           depth, guards)
      acc = dict(cur)
      self._gen_expr(s.test, env, acc, fi, depth)
      t_cur, f_cur = dict(acc), dict(acc)
      p = self._presence(s.test, env)
      if p is not None:
        path, pos = p
        (f_cur if pos else t_cur).setdefault(path, set()).add('<absent>')
      txt = core.norm(s.test)
      a = self._block(s.body, env, t_cur, exits, fi, depth, guards + [('T', txt)])
      b = self._block(s.orelse, env, f_cur, exits, fi, depth, guards + [('F', txt)])
      if a is None and b is None:
        return None
      return self._merge(a, b)
    if isinstance(s, (ast.For, ast.AsyncFor)) and isinstance(s.iter, ast.Name) \
        and ('#lit:' + s.iter.id) in env and not any(
            isinstance(n, (ast.Break, ast.Return)) for n in core.walk_no_nested(s)):
      lit, lenv = env['#lit:' + s.iter.id]
      acc = dict(cur)
      for el in lit.elts:
        env2 = dict(env)
        tg = s.target
        pairs = []
        if isinstance(tg, ast.Name):
          pairs = [(tg.id, el)]
        elif isinstance(tg, ast.Tuple) and isinstance(el, (ast.Tuple, ast.List)) \
            and len(tg.elts) == len(el.elts):
          pairs = [(t.id, e) for t, e in zip(tg.elts, el.elts)
                   if isinstance(t, ast.Name)]
        for nm, e in pairs:
          env2[nm] = self._path(e, lenv)
        r = self._block(s.body, env2, acc, exits, fi, depth, guards)
        if r is None:
          return None
        acc = r
        # assignments to names of the enclosing function persist (x = helper(x))
        for k, v in env2.items():
          if k in env and not any(k == nm for nm, _ in pairs):
            env[k] = v
      return acc
    if isinstance(s, (ast.For, ast.AsyncFor)):
      acc = dict(cur)
      self._gen_expr(s.iter, env, acc, fi, depth)
      src, tgt = self._iter_source(s.iter, s.target, env)
      env2 = dict(env)
      if tgt is not None:
        env2[tgt] = '@elem' if src is not None else None
      has_break = any(isinstance(n, ast.Break) for n in core.walk_no_nested(s))
      body_exits = []
      body = self._block(s.body, env2, {}, body_exits, fi, depth,
                         guards + [('loop', core.norm(s.iter))])
      for ex in body_exits:
        # returns inside the loop body: what was certainly traversed before the
        # loop plus this iteration's work
        merged = dict(acc)
        for k, v in ex.paths.items():
          if not k.startswith('@elem'):
            merged.setdefault(k, set()).update(v)
        exits.append(Exit(ex.node, merged, ex.how, ex.guards))
      if src is not None and body is not None and '@elem' in body and not has_break:
        acc.setdefault(src, set()).update(body['@elem'])
      return acc
    if isinstance(s, ast.While):
      acc = dict(cur)
      self._gen_expr(s.test, env, acc, fi, depth)
      body_exits = []
      self._block(s.body, env, {}, body_exits, fi, depth,
                  guards + [('loop', core.norm(s.test))])
      for ex in body_exits:
        merged = dict(acc)
        exits.append(Exit(ex.node, merged, ex.how, ex.guards))
      return acc
    if isinstance(s, (ast.With, ast.AsyncWith)):
      acc = dict(cur)
      for it in s.items:
        self._gen_expr(it.context_expr, env, acc, fi, depth)
      return self._block(s.body, env, acc, exits, fi, depth, guards)
    if isinstance(s, ast.Try):
      a = self._block(s.body, env, cur, exits, fi, depth, guards)
      if a is not None and s.orelse:
        a = self._block(s.orelse, env, a, exits, fi, depth, guards)
      outs = [a]
      for h in s.handlers:
        outs.append(self._block(h.body, env, cur, exits, fi, depth,
                                guards + [('except', '')]))
      res = None
      for o in outs:
        res = self._merge(res, o)
      if s.finalbody:
        base = res if res is not None else cur
        fin = self._block(s.finalbody, env, base, exits, fi, depth, guards)
        return fin if res is not None else None
      return res
    if isinstance(s, (ast.Break, ast.Continue)):
      return cur
    # simple statements
    acc = dict(cur)
    for e in self._stmt_exprs(s):
      if isinstance(s, ast.Assign) and e in s.targets:
        continue
      self._gen_expr(e, env, acc, fi, depth)
    if isinstance(s, ast.Assign) and len(s.targets) == 1:
      t = s.targets[0]
      if isinstance(t, ast.Name):
        v = s.value
        p = self._path(v, env)
        if p is not None:
          env[t.id] = p
        elif isinstance(v, ast.Call) and v.args and self._path(
            v.args[0], env) is not None and isinstance(v.func, ast.Attribute) \
            and v.func.attr in ('visit', 'generic_visit', 'visit_block'):
          env[t.id] = self._path(v.args[0], env)
        elif isinstance(v, ast.Call) and v.args and isinstance(v.func, ast.Attribute) \
            and isinstance(v.func.value, ast.Name) and v.func.value.id == 'self' \
            and self._path(v.args[0], env) is not None and \
            self.cls.find(v.func.attr) is not None and \
            self._returns_first_param(self.cls.find(v.func.attr)):
          env[t.id] = self._path(v.args[0], env)
        elif t.id in env:
          env[t.id] = None
      elif isinstance(t, ast.Tuple):
        # a, b = self._helper(node, node.body): first result keeps the path
        v = s.value
        if isinstance(v, ast.Call) and len(v.args) >= 2:
          p = self._path(v.args[1], env)
          if isinstance(t.elts[0], ast.Name) and p is not None:
            env[t.elts[0].id] = p
    return acc


def covered(kind, fname, ftype, q, K, S, prefix=''):
  """Is field `prefix+fname` (type ftype, quantifier q) of a node certainly
  traversed, given the must-set S, for target kinds K?"""
  path = prefix + fname
  if ALL in S and prefix == '':
    return True
  if path in S:
    return True
  # parent prefixes: 'args' covers 'args.defaults'
  parts = path.split('.')
  for i in range(1, len(parts)):
    if '.'.join(parts[:i]) in S:
      return True
  if path + '.*' in S:
    return not (set(asdl.alts(ftype)) & set(K))
  # product type: every sub-field that can derive K must be covered
  alts = asdl.alts(ftype)
  if len(alts) == 1 and ftype not in asdl.PRIM and asdl.fields(alts[0]) and \
      alts[0] not in K and q != '*':
    sub_ok = True
    any_sub = False
    for (g, gt, gq) in asdl.fields(alts[0]):
      if asdl.can_derive(gt, K):
        any_sub = True
        if not covered(alts[0], g, gt, gq, K, S, path + '.'):
          sub_ok = False
    return sub_ok and any_sub
  return False


def missing_subfields(ftype, K, S, path):
  out = []
  alts = asdl.alts(ftype)
  if len(alts) == 1:
    for (g, gt, gq) in asdl.fields(alts[0]):
      if asdl.can_derive(gt, K) and not covered(alts[0], g, gt, gq, K, S,
                                                path + '.'):
        out.append(path + '.' + g)
  return out
