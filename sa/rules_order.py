"""ORDER: pass-order constraints *computed* from what each pass emits and consumes,
checked against the call sequence extracted from PyToPy.transform_ast.

 O1  a pass whose templates emit an overloadable construct K in code that is
     still to be converted precedes the pass responsible for K
 O2  a pass that emits def / lambda / return as final code follows every other
     pass that rewrites those kinds
 O3  a pass that reads a (non-analysis) annotation key follows every other pass
     that sets it
 O4  every pass responsible for a jump (break/continue/return) precedes every
     pass that moves user statement lists into generated function definitions
 O5  a pass that binds converter-generated names in the user's function
     precedes the pass that computes loop/branch state (control_flow); passes
     after it bind no generated names
 O7  an analysis annotation a pass reads is fresh: recomputed by the pass's own
     transform() before its visitor runs, or one of the keys template copies
     preserve (the first pass runs directly on the initial analysis); anything
     else was dropped when an earlier pass moved the code through a template
 O6  generated code parked in an annotation (the extra loop test) is invisible
     to tree traversal until the pass that reads the annotation puts it into the
     tree: that pass precedes the pass responsible for every overloadable
     construct the parked code contains
"""
import ast

from sa import core
from sa import tpl

API = 'malt/impl/api.py'
CONV = 'malt.converters.'

RESPONSIBLE = {
    'Break': 'break_statements', 'Continue': 'continue_statements',
    'Return': 'return_statements', 'Call': 'call_trees',
    'If': 'control_flow', 'While': 'control_flow', 'For': 'control_flow',
    'IfExp': 'conditional_expressions', 'BoolOp': 'logical_expressions',
    'Not': 'logical_expressions', 'Eq': 'logical_expressions',
}
TO_CONVERT = ('Break', 'Continue', 'If', 'While', 'For', 'IfExp', 'BoolOp',
              'Not', 'Eq', 'Call')
FINAL = ('FunctionDef', 'Lambda', 'Return')
# passes that rewrite def/lambda/return nodes they meet (computed below from
# the handlers they define; frozen names only used for the reason text)


def pipeline(model):
  fi = model.func(API, 'PyToPy.transform_ast')
  seq = []
  for i, n in enumerate(core.preorder(fi.node)):     # program order
    if isinstance(n, ast.Call) and isinstance(n.func, ast.Attribute) and \
        n.func.attr == 'transform' and isinstance(n.func.value, ast.Name):
      r = model.resolve(fi.module, n.func.value)
      if r and r[0] == 'module' and r[1].name.startswith(CONV):
        seq.append((i, 0, r[1].name[len(CONV):], r[1]))
  names = [s[2] for s in seq]
  if len(names) < 8:
    raise core.AnalysisError('transform_ast: only %d converter passes found' %
                             len(names))
  return names, {s[2]: s[3] for s in seq}, fi


def _emitted(model, mod):
  """kinds emitted by the templates of a pass module -> list of (kind, site, detail)."""
  out = []
  for s in tpl.find_sites(model, [mod.rel]):
    for t in s.templates:
      phs = t.kwargs
      for n in ast.walk(t.tree):
        k = None
        detail = ''
        if isinstance(n, (ast.If, ast.While, ast.For, ast.Break, ast.Continue,
                          ast.IfExp, ast.BoolOp, ast.FunctionDef, ast.Lambda,
                          ast.Return)):
          k = type(n).__name__
        elif isinstance(n, ast.UnaryOp) and isinstance(n.op, ast.Not):
          k = 'Not'
        elif isinstance(n, ast.Compare) and any(
            isinstance(o, (ast.Eq, ast.NotEq)) for o in n.ops):
          k = 'Eq'
        elif isinstance(n, ast.Call):
          d = core.dotted(n.func)
          root = d.split('.')[0] if d else None
          if d is None or root == 'ag__' or root in phs:
            continue
          k = 'Call'
          detail = d
        if k:
          out.append((k, s, detail or core.norm(n)[:50]))
  return out


def _binds_generated(model, mod):
  """template sites of a pass that bind a Namer-generated name (Store / def)."""
  out = []
  for s in tpl.find_sites(model, [mod.rel]):
    for t in s.templates:
      bound = set(t.stores) | set(t.defs)
      for ph in bound & t.kwargs:
        v = s.kwargs.get(ph)
        if v is None:
          continue
        org = tpl.origin(model, s.fi, v, s.call)
        if 'namer' in org:
          out.append((s, ph))
  return out


def _moves_user_blocks_into_defs(model, mod):
  out = []
  for s in tpl.find_sites(model, [mod.rel]):
    for t in s.templates:
      for fn in t.functions():
        for n in ast.walk(fn):
          if isinstance(n, ast.Expr) and isinstance(n.value, ast.Name) and \
              n.value.id in t.kwargs:
            v = s.kwargs.get(n.value.id)
            org = tpl.origin(model, s.fi, v, s.call)
            if 'user' in org:
              out.append((s, n.value.id))
  return out


def _anno_keys(model, mod):
  """-> (sets, reads): key -> list of sites, for non-analysis annotation keys."""
  sets, reads = {}, {}
  for fi in mod.all_functions():
    for c in core.walk_no_nested(fi.node):
      if not (isinstance(c, ast.Call) and isinstance(c.func, ast.Attribute)):
        continue
      r = model.resolve(mod, c.func) if core.dotted(c.func) else None
      if not (r and r[0] == 'func' and r[1].module.name == 'malt.pyct.anno'):
        continue
      name = r[1].name
      if len(c.args) < 2:
        continue
      keyargs = [c.args[1]] if name != 'copyanno' else [c.args[2]] if len(
          c.args) > 2 else []
      for ka in keyargs:
        key = core.dotted(ka) or (ka.value if isinstance(ka, ast.Constant) else None)
        if key is None or 'Static.' in str(key) or 'NodeAnno' in str(key):
          continue
        if name == 'setanno':
          sets.setdefault(key, []).append(fi.site)
        elif name in ('getanno', 'hasanno'):
          reads.setdefault(key, []).append(fi.site)
  return sets, reads


def _analysis_key(e):
  t = core.norm(e)
  return 'Static.' in t or 'NodeAnno' in t


def _rewrites(h):
  """Does this def/lambda/return handler alter (or reject) nodes it meets?
  Reading an analysis annotation is harmless: every pass re-runs the analyses
  it needs at the start of its transform()."""
  probed = set()
  for n in ast.walk(h.node):
    if isinstance(n, ast.If):
      for c in ast.walk(n.test):
        if isinstance(c, ast.Call) and (core.dotted(c.func) or '').endswith(
            'anno.hasanno') and len(c.args) >= 2:
          probed.add(core.norm(c.args[1]))
  for n in ast.walk(h.node):
    if isinstance(n, ast.Call) and isinstance(n.func, ast.Attribute):
      d = core.dotted(n.func) or ''
      if d.endswith('anno.getanno') and len(n.args) == 2 and \
          core.norm(n.args[1]) in probed:
        continue
      if d.startswith('templates.replace'):
        return True
      if d.endswith('anno.getanno') and len(n.args) == 2 and not n.keywords and \
          not _analysis_key(n.args[1]):
        return True
    if isinstance(n, ast.Assert):
      for c in ast.walk(n.test):
        if isinstance(c, ast.Call) and (core.dotted(c.func) or '').endswith(
            'anno.hasanno') and len(c.args) >= 2 and not _analysis_key(c.args[1]):
          return True
  return False


def constraints(model):
  names, mods, fi = pipeline(model)
  cons = []   # (before, after, rule, reason)
  emitted = {p: _emitted(model, mods[p]) for p in names}
  # O1
  for p in names:
    for k, s, detail in emitted[p]:
      if k in TO_CONVERT:
        r = RESPONSIBLE[k]
        if r != p:
          cons.append((p, r, 'O1', '%s emits %s (%s) in %s which %s must still '
                       'convert' % (p, k, detail, s.fi.qualname, r)))
  # O2: who rewrites def / lambda / return nodes it meets
  rewriters = {'FunctionDef': [], 'Lambda': [], 'Return': []}
  for p in names:
    for c in mods[p].classes.values():
      if not c.is_ast_transformer():
        continue
      for k in rewriters:
        h = c.methods.get('visit_' + k)
        if h is None:
          continue
        # a handler that only traverses is harmless; one that reads an
        # annotation off the node without default, or replaces code, is not
        if _rewrites(h):
          rewriters[k].append(p)
  for p in names:
    for k, s, detail in emitted[p]:
      if k in FINAL:
        for rw in rewriters[k]:
          if rw != p:
            cons.append((rw, p, 'O2', '%s emits a final %s in %s; %s rewrites '
                         'every %s it meets' % (p, k, s.fi.qualname, rw, k)))
  # O3
  allsets, allreads = {}, {}
  for p in names:
    st, rd = _anno_keys(model, mods[p])
    for k, v in st.items():
      allsets.setdefault(k, {})[p] = v
    for k, v in rd.items():
      allreads.setdefault(k, {})[p] = v
  for key, readers in allreads.items():
    for rp in readers:
      for sp in allsets.get(key, {}):
        if sp != rp:
          cons.append((sp, rp, 'O3', '%s reads annotation %s set by %s' %
                       (rp, key, sp)))
  # O4
  movers = [p for p in names if _moves_user_blocks_into_defs(model, mods[p])]
  for mv in movers:
    for k in ('Break', 'Continue', 'Return'):
      r = RESPONSIBLE[k]
      if r != mv:
        cons.append((r, mv, 'O4', '%s moves user statement lists into '
                     'generated functions; a %s left in them would change '
                     'meaning' % (mv, k.lower())))
  # O5
  state_pass = RESPONSIBLE['If']
  for p in names:
    b = _binds_generated(model, mods[p])
    if b and p != state_pass:
      cons.append((p, state_pass, 'O5', '%s binds generated name(s) %s in the '
                   'user function; %s must see them to carry them as state' %
                   (p, sorted({ph for _, ph in b}), state_pass)))
  # O6: code parked in annotations
  parked = {}     # key -> {kind: 'pass:site'}
  for p in names:
    for st in tpl.find_sites(model, [mods[p].rel]):
      # does the result of this template call reach a setanno of some key?
      for n in core.walk_no_nested(st.fi.node):
        if not (isinstance(n, ast.Call) and (core.dotted(n.func) or '').endswith(
            'anno.setanno') and len(n.args) == 3):
          continue
        key = core.dotted(n.args[1])
        if key is None or _analysis_key(n.args[1]):
          continue
        val = n.args[2]
        flows = val is st.call
        if isinstance(val, ast.Name):
          ds = tpl.rdefs(st.fi.node).reaching(n, val.id) or []
          flows = flows or any(d is st.call for d in ds)
        if not flows:
          continue
        for t in st.templates:
          for x in ast.walk(t.tree):
            k = None
            if isinstance(x, (ast.BoolOp, ast.IfExp)):
              k = type(x).__name__
            elif isinstance(x, ast.UnaryOp) and isinstance(x.op, ast.Not):
              k = 'Not'
            elif isinstance(x, ast.Compare) and any(
                isinstance(o, (ast.Eq, ast.NotEq)) for o in x.ops):
              k = 'Eq'
            if k:
              parked.setdefault(key, {}).setdefault(k, '%s:%s' % (p, st.fi.qualname))
  for key, kinds in parked.items():
    setters = set(allsets.get(key, {}))
    for m in allreads.get(key, {}):
      if m in setters:
        continue        # re-wraps the parked code, does not put it into the tree
      for k, where in kinds.items():
        r = RESPONSIBLE[k]
        if r != m:
          cons.append((m, r, 'O6', '%s puts the code parked under %s into the '
                       'tree; it contains %s (from %s) which %s must still '
                       'convert' % (m, key, k, where, r)))
  # dedupe
  seen = {}
  for a, b, r, why in cons:
    seen.setdefault((a, b, r), why)
  return names, [(a, b, r, why) for (a, b, r), why in seen.items()], fi


PRODUCERS = {
    'qual_names.resolve': {'anno.Basic.QN'},
    'activity.resolve': {'anno.Static.SCOPE', 'NodeAnno.*'},
    'reaching_definitions.resolve': {'anno.Static.DEFINITIONS',
                                     'anno.Static.DEFINED_VARS_IN'},
    'reaching_fndefs.resolve': {'anno.Static.DEFINED_FNS_IN'},
    'liveness.resolve': {'anno.Static.LIVE_VARS_IN', 'anno.Static.LIVE_VARS_OUT'},
}


def freshness(model, rep, rule):
  names, mods, fi = pipeline(model)
  init = model.func(API, 'PyToPy.initial_analysis')
  initial = set()
  for c in ast.walk(init.node):
    if isinstance(c, ast.Call) and core.dotted(c.func) in PRODUCERS:
      initial |= PRODUCERS[core.dotted(c.func)]
  ctor = model.func('malt/pyct/templates.py', 'ReplaceTransformer.__init__')
  preserved = set()
  for n in ast.walk(ctor.node):
    if isinstance(n, ast.Set):
      preserved |= {core.norm(e) for e in n.elts}
  if not preserved:
    raise core.AnalysisError('ReplaceTransformer.preserved_annos not found')
  for idx, p in enumerate(names):
    mod = mods[p]
    tf = mod.functions.get('transform')
    made = set(initial) if idx == 0 else set()
    if tf is not None:
      for c in ast.walk(tf.node):
        if isinstance(c, ast.Call) and core.dotted(c.func) in PRODUCERS:
          made |= PRODUCERS[core.dotted(c.func)]
    reads = {}
    for f in mod.all_functions():
      for c in core.walk_no_nested(f.node):
        if isinstance(c, ast.Call) and (core.dotted(c.func) or '') in (
            'anno.getanno', 'anno.hasanno') and len(c.args) >= 2:
          k = core.norm(c.args[1]).replace('annos.', '')
          if k.startswith(('anno.Static.', 'NodeAnno.')) or k == 'anno.Basic.QN':
            reads.setdefault(k, []).append(f.qualname)
    for k, where in sorted(reads.items()):
      ok = k in made or (k.startswith('NodeAnno.') and 'NodeAnno.*' in made) or \
          k in preserved
      rep.check(ok, rule, '%s:%s-reads-fresh(%s)' % (fi.site, p, k),
                'pass %s reads the analysis annotation %s, which its transform() '
                'does not recompute and template copies do not preserve: after an '
                'earlier pass moved the code through a template it is simply '
                'absent' % (p, k), {'read_in': sorted(set(where)),
                                    'recomputed': sorted(made)},
                line=fi.node.lineno,
                witness='a parameter that shadows a module-level alias of '
                'set_loop_options: the user\'s call is taken for the directive')


def check(model, rep, prop):
  rep.touch(API)
  rep.rule('ORDER', 'every order constraint computed from emitted / consumed '
           'constructs holds in PyToPy.transform_ast; responsible passes are '
           'all present', floor=12)
  names, cons, fi = constraints(model)
  for k, r in sorted(set(RESPONSIBLE.items())):
    rep.check(r in names, 'ORDER', '%s:present(%s)' % (fi.site, r),
              'the pass responsible for %s (%s) is not in the pipeline' % (k, r),
              {'pipeline': names}, line=fi.node.lineno, nontrivial=False)
  for a, b, rule, why in sorted(cons):
    if a not in names or b not in names:
      continue
    ok = names.index(a) < names.index(b)
    rep.check(ok, 'ORDER', '%s:%s<%s(%s)' % (fi.site, a, b, rule),
              'pass %s must run before %s: %s' % (a, b, why),
              {'pipeline': names, 'reason': why}, line=fi.node.lineno,
              witness='a function using the construct named in the reason')
  rep.unit('order constraints', len(cons))
  freshness(model, rep, 'ORDER')
  guards(model, rep, 'ORDER')


# passes that run only under an optional feature (documented); every other pass
# runs for every function: later passes *create* the constructs it handles
# (break lowering makes `not` / `and` tests, return lowering makes `if` guards)
FEATURE_GATED = {'asserts': 'ASSERT_STATEMENTS', 'lists': 'LISTS', 'slices': 'LISTS'}


def guards(model, rep, rule):
  """The condition under which each converter pass runs, as a formula over the
  option tests `uses(Feature.X)`; anything else in the condition is opaque."""
  from sa import formula
  fi = model.func(API, 'PyToPy.transform_ast')

  def at(e):
    t = core.norm(e)
    if isinstance(e, ast.Call) and t.endswith(')') and '.uses(' in t or t.startswith('uses('):
      arg = core.norm(e.args[0]) if getattr(e, 'args', None) else ''
      if arg.startswith('converter.Feature.'):
        return 'F:' + arg.split('.')[-1]
    if isinstance(e, ast.Name):
      x = tpl.xnorm(fi, e, e)
      if x != e.id and '.uses(' in x:
        return 'F:' + x.split('Feature.')[-1].rstrip(')')
    # a member of the Feature enum is never None (rows of a pass table)
    if isinstance(e, ast.Compare) and len(e.ops) == 1 and isinstance(e.ops[0], ast.Is) \
        and isinstance(e.comparators[0], ast.Constant) and e.comparators[0].value is None \
        and (core.dotted(e.left) or '').startswith('converter.Feature.'):
      return formula.FALSE
    return None
  for n in core.preorder(fi.node):
    if isinstance(n, ast.Call) and isinstance(n.func, ast.Attribute) and \
        n.func.attr == 'transform' and isinstance(n.func.value, ast.Name):
      r = model.resolve(fi.module, n.func.value)
      if not (r and r[0] == 'module' and r[1].name.startswith(CONV)):
        continue
      name = r[1].name[len(CONV):]
      cond = formula.condition_formula(fi.node, n, at)
      want = formula.atom('F:' + FEATURE_GATED[name]) if name in FEATURE_GATED \
          else formula.TRUE
      ok, cex = formula.equivalent(cond, want)
      rep.check(ok, rule, '%s:runs(%s)' % (fi.site, name),
                'pass %s must run %s; a pass that is skipped when the *user* '
                'code shows none of its constructs misses the ones earlier '
                'passes generate' % (name, ('exactly under Feature.%s' %
                                            FEATURE_GATED[name]) if name in FEATURE_GATED
                                     else 'unconditionally'),
                {'condition': str(cond)[:200], 'counterexample': cex},
                line=n.lineno,
                witness='a loop with break whose tests are plain calls: the '
                'lowered `not break_ and test` stays native')


USER_LIST_FIELDS = {'args', 'keywords', 'elts', 'values', 'keys', 'body', 'orelse',
                    'finalbody', 'handlers', 'targets', 'ops', 'comparators', 'items',
                    'generators', 'decorator_list', 'names'}


def user_order(model, rep, rule):
  """Operands are evaluated left to right: a converter may regroup the children
  of a user node but never reorder them.  Flags sorted / reversed / .sort /
  .reverse applied to a list field of a handler's node parameter (directly or
  through a local that names it)."""
  n = 0
  for m in model.modules.values():
    if not m.rel.startswith('malt/converters/'):
      continue
    for fi in m.all_functions():
      ps = set(fi.params())
      for c in core.walk_no_nested(fi.node):
        if not isinstance(c, ast.Call):
          continue
        arg = None
        if isinstance(c.func, ast.Name) and c.func.id in ('sorted', 'reversed') and c.args:
          arg = c.args[0]
        elif isinstance(c.func, ast.Attribute) and c.func.attr in ('sort', 'reverse') \
            and not c.args:
          arg = c.func.value
        if arg is None:
          continue
        try:
          x = tpl.expand(fi, arg, c)
        except Exception:
          x = arg
        while isinstance(x, ast.Call) and core.dotted(x.func) in ('list', 'tuple') and x.args:
          x = x.args[0]
        if isinstance(x, ast.Attribute) and x.attr in USER_LIST_FIELDS and isinstance(
            x.value, ast.Name) and x.value.id in ps:
          n += 1
          rep.violation(rule, '%s:reorders(%s)' % (fi.site, core.norm(x)),
                        'the children of a user node are put into another order: '
                        'their side effects then happen in that order too (and '
                        'positional arguments change places)',
                        {'call': core.norm(c)[:80]}, line=c.lineno,
                        witness='f(*xs, last): a plain argument after a starred one')
  rep.hold(rule, 'malt/converters:no-reordering-of-user-children', {'violations': n},
           nontrivial=False) if n == 0 else None
