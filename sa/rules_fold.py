"""FOLD: how the logical-expression pass folds n-ary constructs into nested
binary operator calls (abstract evaluation of the handlers, sa/foldeval.py).

 BoolOp   `v1 op v2 op ... vn`: every operand occurs exactly once, in source
          order, converted (taken from the node *after* generic_visit), under a
          lambda (lazy) except possibly the first; every call uses the overload
          of the node's own operator
 Compare  `l o1 c1 o2 c2 ...`: the binary comparisons are (o1,l,c1), (o2,c1,c2),
          ... in that order, built from converted operands, each under a lambda
          when there is more than one
"""
import ast

from sa import core
from sa import foldeval as fe

LE = 'malt/converters/logical_expressions.py'
HELPERS = ('_as_lambda', '_as_binary_function', '_as_binary_operation',
           '_as_unary_function', '_process_binop', '_overload_of')


def _show(t):
  if isinstance(t, tuple) and t and t[0] == 'leaf':
    return '%s[%d]%s' % (t[1], t[2], '' if t[3] else '(unconverted)')
  if isinstance(t, tuple) and t and t[0] == 'op':
    return '%s[%d]' % (t[1], t[2])
  if isinstance(t, tuple) and t and t[0] == 'term':
    return '%s(%s)' % (t[1].lstrip('_'), ', '.join(_show(a) for a in t[2:]))
  if isinstance(t, tuple) and t and t[0] == 'const':
    return repr(t[1])
  return str(t)


def _binops(t, under=False, out=None):
  out = [] if out is None else out
  if isinstance(t, tuple) and t and t[0] == 'term':
    if t[1] == '_process_binop':
      out.append((t, under))
      return out
    # the same comparison with the helper written out: the overload of the
    # operator applied to the operands, or the plain binary operation
    if t[1] == '_as_binary_function' and len(t) == 5 and isinstance(t[2], tuple) and \
        t[2][:2] == ('term', '_overload_of'):
      out.append((('term', '_process_binop', t[2][2], t[3], t[4]), under))
      return out
    if t[1] == '_as_binary_operation' and len(t) == 5:
      out.append((('term', '_process_binop', t[2], t[3], t[4]), under))
      return out
    u = under or t[1] == '_as_lambda'
    for a in t[2:]:
      _binops(a, u, out)
  return out


def check(model, rep, rule):
  cls = model.cls(LE, 'LogicalExpressionTransformer')
  rep.touch(LE)
  vb = cls.methods.get('visit_BoolOp')
  vc = cls.methods.get('visit_Compare')
  if vb is None or vc is None:
    raise core.AnalysisError('LogicalExpressionTransformer.visit_BoolOp / visit_Compare not found')
  for n in (2, 3, 4):
    node = fe.Node([], {'values': n}, ops=('op',))
    site = '%s:fold(%d operands)' % (vb.site, n)
    try:
      t = fe.Eval(cls, vb, node, HELPERS).run()
    except fe.Unsupported as e:
      raise core.AnalysisError('visit_BoolOp: cannot evaluate (%s)' % e)
    lv = fe.leaves(t)
    want = [('leaf', 'values', i, True) for i in range(n)]
    got = [l for l, _ in lv]
    probs = []
    if [g[:3] for g in got] != [w[:3] for w in want]:
      probs.append('operands are evaluated in the order %s' % [g[2] for g in got])
    if any(not g[3] for g in got):
      probs.append('an operand is taken from the node as it was before generic_visit')
    if any(not ul for (_, ul) in lv[1:]):
      probs.append('an operand after the first is not wrapped in a lambda (evaluated eagerly)')

    def ops_ok(x):
      if isinstance(x, tuple) and x and x[0] == 'term':
        if x[1] == '_as_binary_function' and x[2] != ('term', '_overload_of', ('op', 'op', 0)):
          return False
        return all(ops_ok(a) for a in x[2:])
      return True
    if not ops_ok(t):
      probs.append('a call does not use the overload of the node\'s operator')

    def natives(x):
      if isinstance(x, tuple) and x and x[0] == 'term':
        return (1 if str(x[1]).startswith('native:') else 0) + sum(natives(a) for a in x[2:])
      if isinstance(x, list):
        return sum(natives(a) for a in x)
      return 0
    if natives(t):
      probs.append('operands are left under a native operator node built by the handler')
    rep.check(not probs, rule, site,
              'a boolean operation must be folded into nested operator calls that '
              'evaluate the converted operands once each, lazily, in source order',
              {'built': _show(t), 'problems': probs}, line=vb.node.lineno,
              witness='xs is not None and i < len(xs) and xs[i] > 0 with xs = None')
  for k in (1, 2, 3):
    node = fe.Node(['left'], {'ops': k, 'comparators': k}, ops=('ops',))
    site = '%s:chain(%d comparisons)' % (vc.site, k)
    try:
      t = fe.Eval(cls, vc, node, HELPERS).run()
    except fe.Unsupported as e:
      raise core.AnalysisError('visit_Compare: cannot evaluate (%s)' % e)
    bs = _binops(t)
    want = []
    prev = ('leaf', 'left', 0, True)
    for i in range(k):
      cur = ('leaf', 'comparators', i, True)
      want.append((('op', 'ops', i), prev, cur))
      prev = cur
    got = [(b[2], b[3], b[4]) for b, _ in bs if len(b) == 5]
    probs = []
    if [(o, l[:3], r[:3]) for o, l, r in got] != [(o, l[:3], r[:3]) for o, l, r in want]:
      probs.append('comparisons built: %s' % [(_show(o), _show(l), _show(r)) for o, l, r in got])
    if any(not x[3] for _, l, r in got for x in (l, r) if x[0] == 'leaf'):
      probs.append('an operand is taken from the node as it was before generic_visit')
    if k > 1 and any(not ul for (_, ul) in bs[1:]):
      probs.append('a comparison after the first is not wrapped in a lambda')

    def eager_operands(x):
      # both operands of and_ are zero-argument callables
      n_ = 0
      if isinstance(x, tuple) and x and x[0] == 'term':
        if x[1] == '_as_binary_function' and len(x) == 5 and x[2] == ('const', 'ag__.and_'):
          n_ += sum(1 for a in x[3:5] if not (isinstance(a, tuple) and a[:2] == (
              'term', '_as_lambda')))
        n_ += sum(eager_operands(a) for a in x[2:])
      elif isinstance(x, list):
        n_ += sum(eager_operands(a) for a in x)
      return n_
    if eager_operands(t):
      probs.append('an operand of ag__.and_ is passed as a value, not as a lambda')
    rep.check(not probs, rule, site,
              'a comparison chain must become the conjunction of its binary '
              'comparisons, in order, over the converted operands, each later one '
              'evaluated lazily', {'built': _show(t), 'problems': probs},
              line=vc.node.lineno,
              witness='flag == (not other): the operand must already be converted')
