"""What a function that builds a collection puts into it, whichever way it is
written: nested loops with add / update, guard clauses, comprehensions with
several generators, a returned set / list comprehension.

`yields(fn_node)` -> list of (levels, elt, accumulator name): `levels` is a list of
  {'target': name, 'iter': expr, 'conds': [(polarity, test_expr)]}
from the outermost generator / loop inwards (conditions are attached to the
innermost level open where they are tested), `elt` the element expression.
Locals that merely name an expression inside the loops are substituted.
"""
import ast
import copy

from sa import core


class _Sub(ast.NodeTransformer):

  def __init__(self, env):
    self.env = env

  def visit_Name(self, n):
    if isinstance(n.ctx, ast.Load) and n.id in self.env:
      return copy.deepcopy(self.env[n.id])
    return n


def _sub(e, env):
  return _Sub(env).visit(copy.deepcopy(e)) if env else e


def _leaves(stmts):
  if not stmts:
    return False
  last = stmts[-1]
  return isinstance(last, (ast.Continue, ast.Return, ast.Raise, ast.Break))


def yields(fn_node):
  out = []
  problems = []

  def push(levels, env, target, it, conds):
    """open the level `for target in it if conds`; an `it` that is itself a
    generator expression is fused: its generators become levels and `target`
    names its element (map fusion).  Returns (levels, env)."""
    it = _sub(it, env)
    if isinstance(it, (ast.GeneratorExp, ast.ListComp)) and all(
        isinstance(g.target, ast.Name) for g in it.generators):
      for g in it.generators:
        levels, env = push(levels, env, g.target.id, g.iter, list(g.ifs))
      env = dict(env)
      env[target] = _sub(it.elt, env)
      if levels and conds:
        levels = levels[:-1] + [dict(levels[-1], conds=levels[-1]['conds'] + [
            ('T', _sub(c, env)) for c in conds])]
      return levels, env
    env = dict(env)
    for nm in target.split(','):
      env.pop(nm, None)
    levels = levels + [{'target': target, 'iter': it,
                        'conds': [('T', _sub(c, env)) for c in conds]}]
    return levels, env

  def tname(t):
    """a loop target as text: a name, or names joined by ',' for a flat tuple"""
    if isinstance(t, ast.Name):
      return t.id
    if isinstance(t, (ast.Tuple, ast.List)) and t.elts and all(
        isinstance(x, ast.Name) for x in t.elts):
      return ','.join(x.id for x in t.elts)
    return None

  def comp(node, levels, env, acc='<return>'):
    """a comprehension appended below the current levels"""
    lv = [dict(l, conds=list(l['conds'])) for l in levels]
    env = dict(env)
    for g in node.generators:
      if tname(g.target) is None:
        problems.append('nested tuple target')
        return
      lv, env = push(lv, env, tname(g.target), g.iter, list(g.ifs))
    elt = node.elt if not isinstance(node, ast.DictComp) else ast.Tuple(
        elts=[node.key, node.value], ctx=ast.Load())
    out.append((lv, _sub(elt, env), acc))

  lists = {}     # name -> single-element list display it was initialised with

  def walk(stmts, levels, env):
    env = dict(env)
    levels = [dict(l, conds=list(l['conds'])) for l in levels]
    for st in stmts:
      if isinstance(st, ast.Assign) and len(st.targets) == 1 and isinstance(
          st.targets[0], ast.Name) and isinstance(st.value, ast.List) and \
          len(st.value.elts) == 1:
        lists[st.targets[0].id] = _sub(st.value.elts[0], env)
      # an explicit work list that visits a tree: `while P: n = P.pop();
      # P.extend(ast.iter_child_nodes(n)); ...` with P = [root]  ==  for n in
      # ast.walk(root) (the visiting order is immaterial for a collection)
      if isinstance(st, ast.While) and isinstance(st.test, ast.Name) and \
          st.test.id in lists and not st.orelse:
        P = st.test.id
        pops = [b for b in st.body if isinstance(b, ast.Assign) and len(b.targets) == 1
                and isinstance(b.targets[0], ast.Name) and isinstance(b.value, ast.Call)
                and core.norm(b.value.func) in (P + '.pop', P + '.popleft')]
        if len(pops) == 1:
          nvar = pops[0].targets[0].id
          ext = [b for b in st.body if isinstance(b, ast.Expr) and isinstance(
              b.value, ast.Call) and core.norm(b.value.func) == P + '.extend' and
                 len(b.value.args) == 1 and core.norm(b.value.args[0]) ==
                 'ast.iter_child_nodes(%s)' % nvar]
          others = [b for b in st.body if b is not pops[0] and b not in ext]
          if len(ext) == 1 and not any(
              isinstance(x, ast.Name) and x.id == P for b in others for x in ast.walk(b)) \
              and not any(isinstance(x, ast.Break) for b in others for x in ast.walk(b)):
            it = ast.Call(func=ast.Attribute(value=ast.Name(id='ast', ctx=ast.Load()),
                                             attr='walk', ctx=ast.Load()),
                          args=[lists[P]], keywords=[])
            l2, e2 = push(levels, env, nvar, it, [])
            walk(others, l2, e2)
            continue
      if isinstance(st, ast.Assign) and len(st.targets) == 1 and isinstance(
          st.targets[0], ast.Subscript) and isinstance(st.targets[0].value, ast.Name) \
          and levels:
        # acc[K] = V inside the loops: the pair (K, V) goes into the mapping
        t0 = st.targets[0]
        out.append((levels, ast.Tuple(elts=[_sub(t0.slice, env), _sub(st.value, env)],
                                      ctx=ast.Load()), t0.value.id))
        continue
      if isinstance(st, ast.Assign) and len(st.targets) == 1 and isinstance(
          st.targets[0], ast.Name):
        v = st.value
        if isinstance(v, ast.DictComp):
          comp(v, levels, env, st.targets[0].id)
          continue
        if isinstance(v, ast.GeneratorExp):
          env[st.targets[0].id] = _sub(v, env)
        elif isinstance(v, (ast.SetComp, ast.ListComp)) or (
            isinstance(v, ast.Call) and core.dotted(v.func) in ('set', 'list', 'tuple')
            and len(v.args) == 1 and isinstance(v.args[0], (ast.GeneratorExp, ast.ListComp))):
          comp(v if not isinstance(v, ast.Call) else v.args[0], levels, env,
               st.targets[0].id)
        elif not (isinstance(v, ast.Call) and core.dotted(v.func) in ('set', 'list')
                  and not v.args) and not isinstance(v, (ast.List, ast.Set)):
          env[st.targets[0].id] = _sub(v, env)
        continue
      if isinstance(st, ast.For):
        if tname(st.target) is None:
          problems.append('nested tuple target')
          continue
        l2, e2 = push(levels, env, tname(st.target), st.iter, [])
        # leaving the loop early means later elements are never looked at
        def same_loop(x):
          yield x
          if isinstance(x, (ast.For, ast.While, ast.FunctionDef, ast.Lambda)):
            return
          for ch in ast.iter_child_nodes(x):
            yield from same_loop(ch)
        if any(isinstance(x, (ast.Break, ast.Return)) for b in st.body for x in same_loop(b)):
          problems.append('early exit from the loop over %s' % core.norm(st.iter)[:40])
        walk(st.body, l2, e2)
        continue
      if isinstance(st, ast.If):
        t = _sub(st.test, env)
        if levels:
          l1 = levels[:-1] + [dict(levels[-1], conds=levels[-1]['conds'] + [('T', t)])]
          l2 = levels[:-1] + [dict(levels[-1], conds=levels[-1]['conds'] + [('F', t)])]
        else:
          l1 = l2 = levels
        walk(st.body, l1, env)
        walk(st.orelse, l2, env)
        # guard clause: the rest of the block runs under the other polarity
        if levels and _leaves(st.body) and not st.orelse:
          levels = l2
        elif levels and st.orelse and _leaves(st.orelse) and not _leaves(st.body):
          levels = l1
        continue
      if isinstance(st, ast.Expr) and isinstance(st.value, ast.Call) and isinstance(
          st.value.func, ast.Attribute) and len(st.value.args) == 1:
        c = st.value
        acc = core.norm(c.func.value)
        if c.func.attr in ('add', 'append'):
          out.append((levels, _sub(c.args[0], env), acc))
        elif c.func.attr in ('update', 'extend') and isinstance(
            c.args[0], (ast.GeneratorExp, ast.ListComp, ast.SetComp)):
          comp(c.args[0], levels, env, acc)
        elif c.func.attr in ('update', 'extend'):
          # every element of the argument: one more (unfiltered) level
          l2, e2 = push(levels, env, '_each', c.args[0], [])
          out.append((l2, ast.Name(id='_each', ctx=ast.Load()), acc))
        continue
      if isinstance(st, ast.AugAssign) and isinstance(st.op, (ast.Add, ast.BitOr)) and \
          isinstance(st.target, ast.Name):
        l2, e2 = push(levels, env, '_each', st.value, [])
        out.append((l2, ast.Name(id='_each', ctx=ast.Load()), st.target.id))
        continue
      if isinstance(st, ast.Return) and st.value is not None:
        v = st.value
        if isinstance(v, ast.Call) and core.dotted(v.func) in (
            'set', 'frozenset', 'list', 'tuple') and len(v.args) == 1:
          v = v.args[0]
        if isinstance(v, (ast.SetComp, ast.ListComp, ast.GeneratorExp, ast.DictComp)):
          comp(v, levels, env)
        continue
  walk(fn_node.body, [], {})
  return out, problems
