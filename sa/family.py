"""Unions over a family: the value  U_{v in SRC} F(v)  however it is spelled.

    acc = set(); for v in SRC: acc.update(F(v))      (or  acc |= F(v))
    frozenset(itertools.chain.from_iterable(F(v) for v in SRC))
    set().union(*(F(v) for v in SRC))
    {x for v in SRC for x in F(v)}

`union_family(fi, expr, at)` returns (source text, family text with the bound
variable spelled N), locals that merely name something expanded, or None.
"""
import ast
import copy

from sa import core
from sa import tpl


class _Ren(ast.NodeTransformer):

  def __init__(self, old, new):
    self.old, self.new = old, new

  def visit_Name(self, n):
    if n.id == self.old:
      return ast.Name(id=self.new, ctx=n.ctx)
    return n


def _fam(fi, elt, var, at):
  e = tpl.expand(fi, elt, at) if any(elt is x for x in ast.walk(fi.node)) else elt
  return core.norm(_Ren(var, 'N').visit(copy.deepcopy(e)))


def _strip(e):
  while isinstance(e, ast.Call) and core.dotted(e.func) in (
      'frozenset', 'set', 'tuple', 'list', 'sorted') and len(e.args) == 1 and not e.keywords:
    e = e.args[0]
  return e


def union_family(fi, e, at):
  e = _strip(e)
  # chain.from_iterable(F(v) for v in SRC)
  if isinstance(e, ast.Call) and core.dotted(e.func) in (
      'itertools.chain.from_iterable', 'chain.from_iterable') and len(e.args) == 1 and \
      isinstance(e.args[0], (ast.GeneratorExp, ast.ListComp)):
    g = e.args[0]
    if len(g.generators) == 1 and not g.generators[0].ifs and isinstance(
        g.generators[0].target, ast.Name):
      gen = g.generators[0]
      return tpl.xnorm(fi, gen.iter, at), _fam(fi, g.elt, gen.target.id, at)
  # set().union(*(F(v) for v in SRC))
  if isinstance(e, ast.Call) and isinstance(e.func, ast.Attribute) and \
      e.func.attr == 'union' and core.norm(e.func.value) in ('set()', 'frozenset()') and \
      len(e.args) == 1 and isinstance(e.args[0], ast.Starred) and isinstance(
          e.args[0].value, (ast.GeneratorExp, ast.ListComp)):
    g = e.args[0].value
    if len(g.generators) == 1 and not g.generators[0].ifs and isinstance(
        g.generators[0].target, ast.Name):
      gen = g.generators[0]
      return tpl.xnorm(fi, gen.iter, at), _fam(fi, g.elt, gen.target.id, at)
  # {x for v in SRC for x in F(v)}
  if isinstance(e, (ast.SetComp, ast.GeneratorExp, ast.ListComp)) and \
      len(e.generators) == 2 and not any(g.ifs for g in e.generators) and all(
          isinstance(g.target, ast.Name) for g in e.generators) and \
      core.norm(e.elt) == e.generators[1].target.id:
    g0, g1 = e.generators
    return tpl.xnorm(fi, g0.iter, at), _fam(fi, g1.iter, g0.target.id, at)
  # an accumulator filled by one loop
  if isinstance(e, ast.Name):
    acc = e.id
    stores = [n for n in ast.walk(fi.node) if isinstance(n, (ast.Assign, ast.AugAssign))
              and any(isinstance(t, ast.Name) and t.id == acc
                      for t in (n.targets if isinstance(n, ast.Assign) else [n.target]))]
    inits = [s for s in stores if isinstance(s, ast.Assign) and core.norm(s.value) in (
        'set()', 'frozenset()')]
    loops = [l for l in ast.walk(fi.node) if isinstance(l, ast.For) and any(
        isinstance(x, ast.Name) and x.id == acc for b in l.body for x in ast.walk(b))]
    def _accumulates(st):
      return (isinstance(st, ast.AugAssign) and isinstance(st.op, ast.BitOr) and isinstance(
          st.target, ast.Name) and st.target.id == acc) or (
              isinstance(st, ast.Expr) and isinstance(st.value, ast.Call) and isinstance(
                  st.value.func, ast.Attribute) and st.value.func.attr == 'update' and
              core.norm(st.value.func.value) == acc)
    if len(inits) == 1 and len(loops) == 1 and isinstance(loops[0].target, ast.Name) \
        and not loops[0].orelse and sum(1 for st in loops[0].body if _accumulates(st)) == 1 \
        and not any(isinstance(x, (ast.Break, ast.Continue, ast.Return, ast.Raise))
                    for st in loops[0].body[:[i for i, st in enumerate(loops[0].body)
                                             if _accumulates(st)][0]]
                    for x in ast.walk(st)):
      # (the accumulating statement is a direct, unconditional statement of the
      # loop body; nothing before it can leave the iteration)
      lp = loops[0]
      b = [st for st in lp.body if _accumulates(st)][0]
      val = None
      if isinstance(b, ast.AugAssign) and isinstance(b.op, ast.BitOr) and isinstance(
          b.target, ast.Name) and b.target.id == acc:
        val = b.value
      elif isinstance(b, ast.Expr) and isinstance(b.value, ast.Call) and isinstance(
          b.value.func, ast.Attribute) and b.value.func.attr == 'update' and \
          core.norm(b.value.func.value) == acc and len(b.value.args) == 1:
        val = b.value.args[0]
      other = [s for s in stores if s not in inits and s is not b]
      if val is not None and not other:
        return tpl.xnorm(fi, lp.iter, lp.iter), _fam(fi, _strip(val), lp.target.id, lp)
    # a local that names the whole union expression
    ds = tpl.rdefs(fi.node).reaching(at, acc) if at is not None else None
    if ds and len(ds) == 1 and isinstance(ds[0], ast.AST):
      return union_family(fi, ds[0], ds[0])
  return None
