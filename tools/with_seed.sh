#!/bin/bash
# usage: with_seed.sh <seed-dir-name> <command...>   runs the command with VERIF_REPO pointing to a scratch copy of /repo with the seed applied
S="$1"; shift
T=$(mktemp -d /tmp/withseed_XXXXXX)
trap 'rm -rf "$T"' EXIT
cp -r /repo/malt "$T/malt"
(cd "$T" && patch -p1 -s -i /verif/seeded/$S/patch.diff) || { echo "PATCH FAILED"; exit 3; }
VERIF_REPO="$T" VERIF_NO_EVIDENCE=1 "$@" "$T"
