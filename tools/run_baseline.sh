#!/bin/bash
# usage: run_baseline.sh <worktree>   -- runs the repository test suite inside the worktree and checks that every
# test that passes on the unmodified tree still passes. Prints BASELINE-OK or the list of newly failing tests.
WT="$1"; OUT=$(mktemp /tmp/junit.XXXXXX.xml)
cd "$WT" && /venv/bin/python -m pytest -q -p no:cacheprovider --timeout=900 --continue-on-collection-errors --junitxml="$OUT" >/dev/null 2>&1
/venv/bin/python - "$OUT" <<'P'
import json,sys,xml.etree.ElementTree as ET
t=ET.parse(sys.argv[1])
passed={tc.get('classname')+'::'+tc.get('name') for tc in t.iter('testcase') if not any(c.tag in ('failure','error','skipped') for c in tc)}
base=json.load(open('/verif/tools/passing_tests.json'))
miss=[x for x in base if x not in passed]
print('BASELINE-OK (%d passing)'%len(passed) if not miss else 'BASELINE-BROKEN: %s'%miss)
P
rm -f "$OUT"
