#!/bin/bash
# usage: neutral_one.sh <out-dir e.g. /tmp/wt/N5C01/out/1> <prefix e.g. N5> <tag e.g. n5>
# verifies one refactoring in a fresh scratch worktree (applies, compiles, baseline passes) and stores it under /verif/neutral
d="$1"; P="$2"; T="$3"; LOG=/tmp/neutral_$T.log; touch $LOG
k=$(basename $d); id=$(basename $(dirname $(dirname $d))); id=${id#$P}
[ -f "$d/patch.diff" ] && [ -f "$d/notes.md" ] || exit 0
D=/verif/neutral/$id-$T-$k
[ -d "$D" ] && exit 0
WT=$(mktemp -d /tmp/neutral_XXXXXX); rmdir "$WT"
git -C /repo worktree add -q --detach "$WT" HEAD || exit 0
( cd "$WT" && (git apply "$d/patch.diff" 2>/dev/null || patch -p1 -s < "$d/patch.diff" >/dev/null 2>&1) ) || { echo "$id-$k: REJECTED patch does not apply" >> $LOG; git -C /repo worktree remove --force "$WT"; exit 0; }
( cd "$WT" && /venv/bin/python -m compileall -q malt >/dev/null 2>&1 ) || { echo "$id-$k: REJECTED does not compile" >> $LOG; git -C /repo worktree remove --force "$WT"; exit 0; }
BASE=$(/verif/tools/run_baseline.sh "$WT" | tail -1)
if [[ "$BASE" != BASELINE-OK* ]]; then echo "$id-$k: REJECTED $BASE" | cut -c1-200 >> $LOG; git -C /repo worktree remove --force "$WT"; exit 0; fi
mkdir -p "$D"; ( cd "$WT" && git diff -- malt > "$D/patch.diff" ); cp "$d/notes.md" "$D/notes.md"; [ -f "$d/sanity.py" ] && cp "$d/sanity.py" "$D/sanity.py"
echo "{\"property\": \"$id\", \"kind\": \"behaviour-preserving refactoring\", \"baseline_with_patch\": \"$BASE\", \"source\": \"independent sub-agent given only the property record\"}" > "$D/meta.json"
git -C /repo worktree remove --force "$WT"
echo "$id-$k: STORED $BASE" >> $LOG
