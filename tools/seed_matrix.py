#!/venv/bin/python
"""Runs every confirmed seeded change against every claimed check (on scratch
copies) and writes /verif/seeded/RESULTS.md."""
import json, pathlib, subprocess, sys, concurrent.futures as cf
V = pathlib.Path(__file__).resolve().parent.parent
seeds = sorted(p.name for p in (V / 'seeded').iterdir() if (p / 'patch.diff').exists())

def one(s):
  r = subprocess.run([str(V / 'tools/seedrun.py'), 'seeded/' + s, '--all'], cwd=V,
                     capture_output=True, text=True)
  lines = r.stdout.splitlines()
  head = lines[0] if lines else ''
  caught = head.split('CAUGHT by ')[1].split()[0].split(',') if 'CAUGHT by' in head else []
  rules = []
  for l in lines[1:]:
    parts = l.split()
    if len(parts) >= 2 and parts[0] in caught:
      rules.append('%s:%s' % (parts[0], parts[1]))
  return s, caught, sorted(set(rules)), head

with cf.ThreadPoolExecutor(16) as ex:
  res = list(ex.map(one, seeds))
out = ['# Seeded changes vs. checks', '',
       'Each row: a confirmed change (breaks the property, compiles, passes the '
       'baseline suite), the properties whose quick check reports a VIOLATION on a '
       'scratch copy with the change applied, and the rules that fired.', '',
       '| seed | property | caught by | rules |', '|---|---|---|---|']
missed = 0
for s, caught, rules, head in res:
  prop = s.split('-')[0]
  own = prop in caught
  if not own:
    missed += 1
  out.append('| %s | %s | %s | %s |' % (s, prop, ', '.join(caught) or '**MISSED**' + (
      ' (' + head.split(':', 1)[1].strip()[:60] + ')' if head else ''),
      ', '.join(rules)))
out += ['', '%d changes, %d caught by the check of their own property, %d missed.' %
        (len(res), len(res) - missed, missed)]
(V / 'seeded' / 'RESULTS.md').write_text('\n'.join(out) + '\n')
print(out[-1])
