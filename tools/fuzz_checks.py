#!/venv/bin/python
"""Robustness fuzz of the checkers: random small AST mutations of /repo/malt on
scratch copies; every check must end with exit 0 or 1 (verdict) -- a traceback
or an ANALYSIS-ERROR is recorded.  usage: fuzz_checks.py [N] [seed]"""
import ast, json, os, pathlib, random, shutil, subprocess, sys, tempfile
import concurrent.futures as cf
V = pathlib.Path(__file__).resolve().parent.parent
N = int(sys.argv[1]) if len(sys.argv) > 1 else 60
SEED = int(sys.argv[2]) if len(sys.argv) > 2 else 1
PROPS = [c['property_id'] for c in json.load(open(V / 'MANIFEST.json'))['checks']]
FILES = sorted(str(p.relative_to('/repo')) for p in pathlib.Path('/repo/malt').rglob('*.py')
               if p.stat().st_size > 400)


def mutate(src, rnd):
  tree = ast.parse(src)
  fns = [n for n in ast.walk(tree) if isinstance(n, ast.FunctionDef) and len(n.body) > 1]
  if not fns:
    return None, None
  fn = rnd.choice(fns)
  kind = rnd.choice(['del', 'neg', 'swap', 'ret', 'const'])
  if kind == 'del':
    cands = [(b, i) for n in ast.walk(fn) for f in ('body', 'orelse')
             for b in [getattr(n, f, None)] if isinstance(b, list)
             for i, s in enumerate(b) if isinstance(s, (ast.Expr, ast.Assign, ast.AugAssign))
             and not (isinstance(s, ast.Expr) and isinstance(s.value, ast.Constant))]
    if not cands:
      return None, None
    b, i = rnd.choice(cands)
    what = ast.unparse(b[i])[:60]
    b[i] = ast.Pass()
  elif kind == 'neg':
    ifs = [n for n in ast.walk(fn) if isinstance(n, ast.If)]
    if not ifs:
      return None, None
    n = rnd.choice(ifs)
    what = ast.unparse(n.test)[:60]
    n.test = ast.UnaryOp(op=ast.Not(), operand=n.test)
  elif kind == 'swap':
    calls = [n for n in ast.walk(fn) if isinstance(n, ast.Call) and len(n.args) >= 2]
    if not calls:
      return None, None
    n = rnd.choice(calls)
    what = ast.unparse(n)[:60]
    n.args[0], n.args[1] = n.args[1], n.args[0]
  elif kind == 'ret':
    rets = [n for n in ast.walk(fn) if isinstance(n, ast.Return) and n.value is not None]
    if not rets:
      return None, None
    n = rnd.choice(rets)
    what = ast.unparse(n)[:60]
    n.value = ast.Constant(None)
  else:
    cs = [n for n in ast.walk(fn) if isinstance(n, ast.Constant) and isinstance(n.value, (bool, int))]
    if not cs:
      return None, None
    n = rnd.choice(cs)
    what = repr(n.value)
    n.value = (not n.value) if isinstance(n.value, bool) else n.value + 1
  ast.fix_missing_locations(tree)
  return ast.unparse(tree) + '\n', '%s %s in %s' % (kind, what, fn.name)


def one(i):
  rnd = random.Random(SEED * 100000 + i)
  rel = rnd.choice(FILES)
  src = open('/repo/' + rel).read()
  new, what = mutate(src, rnd)
  if new is None:
    return None
  try:
    compile(new, rel, 'exec')
  except Exception:
    return None
  tmp = pathlib.Path(tempfile.mkdtemp(prefix='fuzzchk_'))
  try:
    shutil.copytree('/repo/malt', tmp / 'malt')
    (tmp / rel).write_text(new)
    env = dict(os.environ, VERIF_REPO=str(tmp), VERIF_NO_EVIDENCE='1')
    res = {}
    for p in PROPS:
      r = subprocess.run(['/venv/bin/python', '-m', 'sa.run', p], cwd=V, env=env,
                         capture_output=True, text=True)
      if r.returncode not in (0, 1):
        msg = [l for l in (r.stdout + r.stderr).splitlines() if 'ANALYSIS-ERROR' in l or 'Error' in l]
        res[p] = (r.returncode, (msg[-2:] if msg else [''])[0][:200], 'Traceback' in (r.stdout + r.stderr))
    return rel, what, res
  finally:
    shutil.rmtree(tmp, ignore_errors=True)


with cf.ProcessPoolExecutor(16) as ex:
  out = [r for r in ex.map(one, range(N)) if r]
bad = [(rel, what, res) for rel, what, res in out if res]
print('%d mutants, %d with a non-verdict exit' % (len(out), len(bad)))
for rel, what, res in bad:
  print(rel, '|', what)
  for p, (code, msg, tb) in res.items():
    print('    %s exit %d %s %s' % (p, code, 'TRACEBACK' if tb else '', msg))
