#!/venv/bin/python
"""Regenerates the catch-matrix block of DESIGN.md (between the markers) from
seeded/RESULTS.md and the seeds' meta/notes."""
import json, pathlib, re
V = pathlib.Path(__file__).resolve().parent.parent
rows = []
for l in (V / 'seeded' / 'RESULTS.md').read_text().splitlines():
  m = re.match(r'\| (C\d\d[-\w]*) \| (C\d\d) \| ([^|]*) \| ([^|]*) \|', l)
  if not m:
    continue
  seed, prop, caught, rules = [x.strip() for x in m.groups()]
  own = sorted({r.split(':', 1)[1] for r in rules.split(', ') if r.startswith(prop + ':')})
  others = sorted({c for c in caught.split(', ') if c and c != prop})
  d = V / 'seeded' / seed
  what = ''
  pd = (d / 'patch.diff').read_text()
  files = sorted(set(re.findall(r'^\+\+\+ b/(\S+)', pd, re.M)))
  rows.append((seed, prop, ', '.join(f.replace('malt/', '') for f in files), ', '.join(own) or '**missed**',
               ', '.join(others)))
out = ['| change | file(s) touched | rules of its own property that report it | also reported by |',
       '|---|---|---|---|']
for r in rows:
  out.append('| %s | %s | %s | %s |' % (r[0], r[2], r[3], r[4]))
block = '\n'.join(out)
p = V / 'DESIGN.md'
s = p.read_text()
a, b = '<!-- MATRIX-BEGIN -->', '<!-- MATRIX-END -->'
if a in s:
  s = s[:s.index(a) + len(a)] + '\n' + block + '\n' + s[s.index(b):]
  p.write_text(s)
print(len(rows), 'rows', sum(1 for r in rows if r[3] == '**missed**'), 'missed')
