#!/venv/bin/python
"""Runs every check on a scratch copy carrying each stored behaviour-preserving
refactoring (neutral/<id>/patch.diff); any VIOLATION is a false alarm."""
import json, pathlib, subprocess, sys, concurrent.futures as cf
V = pathlib.Path(__file__).resolve().parent.parent
items = sorted(p.name for p in (V / 'neutral').iterdir() if (p / 'patch.diff').exists()) if (V / 'neutral').exists() else []
only = sys.argv[1:]
if only:
  items = [i for i in items if i in only]
def one(s):
  r = subprocess.run([str(V / 'tools/seedrun.py'), str(V / 'neutral' / s / 'patch.diff'), '--all'],
                     cwd=V, capture_output=True, text=True)
  return s, r.stdout
with cf.ThreadPoolExecutor(8) as ex:
  res = list(ex.map(one, items))
alarms = 0
known = 0
out = ['# Behaviour-preserving refactorings vs. checks', '',
       'Each row: a refactoring that keeps behaviour (baseline passes); every check must stay silent.', '',
       '| refactoring | verdict |', '|---|---|']
for s, txt in res:
  head = txt.splitlines()[0] if txt else ''
  meta = json.loads((V / 'neutral' / s / 'meta.json').read_text()) if (
      V / 'neutral' / s / 'meta.json').exists() else {}
  if 'CAUGHT by' in head or 'errors=' in head or 'FAILED' in head:
    if meta.get('known_imprecision'):
      known += 1
      out.append('| %s | **false alarm, documented** %s |' % (
          s, head.split(':', 1)[1].strip()[:80]))
      continue
    alarms += 1
    out.append('| %s | **ALARM** %s |' % (s, head.split(':', 1)[1].strip()[:100]))
    print(txt[:1500])
  else:
    out.append('| %s | silent |' % s)
out += ['', '%d refactorings, %d raise an alarm%s.' % (len(res), alarms, (
    ' (plus %d documented false alarm(s), see meta.json known_imprecision)' % known) if known else '')]
(V / 'neutral' / 'RESULTS.md').write_text('\n'.join(out) + '\n') if (V / 'neutral').exists() else None
print(out[-1])
