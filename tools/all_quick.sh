#!/bin/bash
# runs every quick check (no evidence written) and prints one line per check; flags unlisted violations
for c in 01 02 03 04 05 06 07 08 09 10 11 13 14 15 16 17 18 19 20; do
  out=$(VERIF_NO_EVIDENCE=1 /venv/bin/python -m sa.run C$c --tier quick 2>&1); rc=$?
  echo "rc=$rc $(echo "$out" | tail -1)"
done
