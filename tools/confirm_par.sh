#!/bin/bash
# usage: confirm_par.sh <prefix e.g. R6> <tag e.g. r6> <ids...>   confirms the out/k dirs of the given properties, 5 at a time
P="$1"; T="$2"; shift 2; LOG=/tmp/confirm_$T.log; touch $LOG
for id in "$@"; do for d in /tmp/wt/$P$id/out/*/; do k=$(basename $d); [ -f "$d/patch.diff" ] && [ -f "$d/demo.py" ] || continue; [ -d /verif/seeded/$id-$T-$k ] && continue; echo "$id $k $d"; done; done | xargs -P 5 -L 1 sh -c 'SEEDNAME=$0-'$T'-$1 /verif/tools/confirm_seed.sh $0 $1 $2 >> '$LOG' 2>&1'
grep -c "CONFIRMED ->" $LOG; grep "NOT CONFIRMED\|NOT APPLY" $LOG
