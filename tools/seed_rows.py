#!/venv/bin/python
"""Refreshes the rows of the given seeds in seeded/RESULTS.md (adds missing ones,
drops rows of seeds that no longer exist) without re-running the whole matrix."""
import pathlib, subprocess, sys
V = pathlib.Path(__file__).resolve().parent.parent
p = V / 'seeded' / 'RESULTS.md'
lines = p.read_text().splitlines()
rows = {l.split('|')[1].strip(): l for l in lines if l.startswith('| C')}
for s in sys.argv[1:]:
  r = subprocess.run([str(V / 'tools/seedrun.py'), 'seeded/' + s, '--all'], cwd=V,
                     capture_output=True, text=True)
  out = r.stdout.splitlines()
  head = out[0] if out else ''
  caught = head.split('CAUGHT by ')[1].split()[0].split(',') if 'CAUGHT by' in head else []
  rules = sorted({'%s:%s' % (x.split()[0], x.split()[1]) for x in out[1:]
                  if len(x.split()) >= 2 and x.split()[0] in caught})
  rows[s] = '| %s | %s | %s | %s |' % (s, s.split('-')[0], ', '.join(caught) or '**MISSED**',
                                     ', '.join(rules))
existing = {d.name for d in (V / 'seeded').iterdir() if (d / 'patch.diff').exists()}
rows = {k: v for k, v in rows.items() if k in existing}
missed = sum(1 for k, v in rows.items() if k.split('-')[0] not in [
    c.strip() for c in v.split('|')[3].split(',')])
head_lines = [l for l in lines if not l.startswith('| C') and 'changes,' not in l]
while head_lines and not head_lines[-1].strip():
  head_lines.pop()
body = [rows[k] for k in sorted(rows)]
p.write_text('\n'.join(head_lines + body + ['', '%d changes, %d caught by the check of their own '
             'property, %d missed.' % (len(rows), len(rows) - missed, missed)]) + '\n')
print(len(rows), 'rows,', missed, 'missed')
