#!/bin/bash
# usage: neutral_run.sh <round-prefix e.g. N1> <tag e.g. n1>
# For every finished /tmp/wt/<prefix>Cxx/out/k: verify in a fresh scratch worktree that the refactoring applies,
# compiles and keeps the baseline; store it as /verif/neutral/<Cxx>-<tag>-<k>/ and run every check on a scratch copy.
P="$1"; T="$2"; LOG=/tmp/neutral_$T.log; touch $LOG
for d in /tmp/wt/${P}C*/out/*/; do
  k=$(basename $d); id=$(basename $(dirname $(dirname $d))); id=${id#$P}
  [ -f "$d/patch.diff" ] && [ -f "$d/notes.md" ] || continue
  D=/verif/neutral/$id-$T-$k
  [ -d "$D" ] && continue
  grep -q "^$id-$k: REJECTED" $LOG && continue
  WT=$(mktemp -d /tmp/neutral_XXXXXX); rmdir "$WT"
  git -C /repo worktree add -q --detach "$WT" HEAD || continue
  ( cd "$WT" && (git apply "$d/patch.diff" 2>/dev/null || patch -p1 -s < "$d/patch.diff" >/dev/null 2>&1) ) || { echo "$id-$k: REJECTED patch does not apply" >> $LOG; git -C /repo worktree remove --force "$WT"; continue; }
  ( cd "$WT" && /venv/bin/python -m compileall -q malt >/dev/null 2>&1 ) || { echo "$id-$k: REJECTED does not compile" >> $LOG; git -C /repo worktree remove --force "$WT"; continue; }
  BASE=$(/verif/tools/run_baseline.sh "$WT" | tail -1)
  if [[ "$BASE" != BASELINE-OK* ]]; then echo "$id-$k: REJECTED $BASE" | cut -c1-200 >> $LOG; git -C /repo worktree remove --force "$WT"; continue; fi
  mkdir -p "$D"; ( cd "$WT" && git diff -- malt > "$D/patch.diff" ); cp "$d/notes.md" "$D/notes.md"; [ -f "$d/sanity.py" ] && cp "$d/sanity.py" "$D/sanity.py"
  echo "{\"property\": \"$id\", \"kind\": \"behaviour-preserving refactoring\", \"baseline_with_patch\": \"$BASE\", \"source\": \"independent sub-agent given only the property record\"}" > "$D/meta.json"
  git -C /repo worktree remove --force "$WT"
  echo "$id-$k: STORED $BASE" >> $LOG
done
tail -5 $LOG
