#!/venv/bin/python
"""Behaviour-preserving twin: rename every true local variable of every
function of malt/ (symtable-scoped), optionally verify with the baseline test
suite, and run all quick checks on the result.

usage: twin_rename.py [--verify-tests] [--keep DIR] [--props C01,C02]
"""
import ast, json, os, pathlib, shutil, subprocess, symtable, sys, tempfile
V = pathlib.Path(__file__).resolve().parent.parent
SUFFIX = '_rn'


sys.path.insert(0, str(V))
from sa.twins import Renamer, rename_source  # noqa: E402


def main():
  args = sys.argv[1:]
  verify = '--verify-tests' in args
  props = None
  if '--props' in args:
    props = args[args.index('--props') + 1].split(',')
  keep = args[args.index('--keep') + 1] if '--keep' in args else None
  tmp = pathlib.Path(keep) if keep else pathlib.Path(tempfile.mkdtemp(prefix='twinrn_'))
  try:
    if (tmp / 'malt').exists():
      shutil.rmtree(tmp / 'malt')
    shutil.copytree('/repo/malt', tmp / 'malt')
    total = 0
    for p in (tmp / 'malt').rglob('*.py'):
      new, n = rename_source(p.read_text(), str(p))
      p.write_text(new)
      total += n
    print('renamed %d name occurrences' % total)
    if verify:
      shutil.copytree('/repo/tests', tmp / 'tests', dirs_exist_ok=True)
      r = subprocess.run(['/verif/tools/run_baseline.sh', str(tmp)], capture_output=True, text=True)
      print('baseline on renamed tree:', r.stdout.strip()[-200:])
    props = props or [c['property_id'] for c in json.load(open(V / 'MANIFEST.json'))['checks']]
    env = dict(os.environ, VERIF_REPO=str(tmp), VERIF_NO_EVIDENCE='1')
    bad = 0
    for p in props:
      r = subprocess.run(['/venv/bin/python', '-m', 'sa.run', p], cwd=V, env=env,
                         capture_output=True, text=True)
      print(p, 'exit', r.returncode)
      if r.returncode != 0:
        bad += 1
        print('\n'.join(l[:230] for l in r.stdout.splitlines()
                        if (l.startswith('  ') and not l.startswith('    ')) or 'ERROR' in l)[:2500])
    sys.exit(1 if bad else 0)
  finally:
    if not keep:
      shutil.rmtree(tmp, ignore_errors=True)


if __name__ == '__main__':
  main()
