#!/venv/bin/python
"""Behaviour-preserving twin: re-print every module of malt/ with ast.unparse
(comments gone, layout and line numbers changed) and run all quick checks."""
import ast, json, os, pathlib, shutil, subprocess, sys, tempfile
V = pathlib.Path(__file__).resolve().parent.parent
tmp = pathlib.Path(tempfile.mkdtemp(prefix='twin_'))
try:
  shutil.copytree('/repo/malt', tmp / 'malt')
  for p in (tmp / 'malt').rglob('*.py'):
    src = p.read_text()
    p.write_text(ast.unparse(ast.parse(src)) + '\n')
  props = [c['property_id'] for c in json.load(open(V / 'MANIFEST.json'))['checks']]
  env = dict(os.environ, VERIF_REPO=str(tmp), VERIF_NO_EVIDENCE='1')
  bad = 0
  for p in props:
    r = subprocess.run(['/venv/bin/python', '-m', 'sa.run', p], cwd=V, env=env,
                       capture_output=True, text=True)
    known = r.stdout.count('KNOWN-FINDING')
    print(p, 'exit', r.returncode, 'known', known)
    if r.returncode != 0:
      bad += 1
      print('\n'.join(l for l in r.stdout.splitlines() if l.startswith('  ') or 'ERROR' in l)[:1500])
  sys.exit(1 if bad else 0)
finally:
  shutil.rmtree(tmp, ignore_errors=True)
