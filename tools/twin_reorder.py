#!/venv/bin/python
"""Behaviour-preserving twin: plain methods of every class in reverse order.
usage: twin_reorder.py [--verify-tests] [--props C01,..] [--keep DIR]"""
import json, os, pathlib, shutil, subprocess, sys, tempfile
V = pathlib.Path(__file__).resolve().parent.parent
sys.path.insert(0, str(V))
from sa import twins  # noqa: E402
args = sys.argv[1:]
keep = args[args.index('--keep') + 1] if '--keep' in args else None
tmp = pathlib.Path(keep) if keep else pathlib.Path(tempfile.mkdtemp(prefix='twinro_'))
try:
  if (tmp / 'malt').exists():
    shutil.rmtree(tmp / 'malt')
  dst, n = twins.make_reorder_twin('/repo/malt', tmp)
  print('moved %d methods' % n)
  if '--verify-tests' in args:
    shutil.copytree('/repo/tests', tmp / 'tests', dirs_exist_ok=True)
    r = subprocess.run([str(V / 'tools/run_baseline.sh'), str(tmp)], capture_output=True, text=True)
    print('baseline on reordered tree:', r.stdout.strip()[-200:])
  props = args[args.index('--props') + 1].split(',') if '--props' in args else [
      c['property_id'] for c in json.load(open(V / 'MANIFEST.json'))['checks']]
  env = dict(os.environ, VERIF_REPO=str(tmp), VERIF_NO_EVIDENCE='1')
  bad = 0
  for p in props:
    r = subprocess.run(['/venv/bin/python', '-m', 'sa.run', p], cwd=V, env=env,
                       capture_output=True, text=True)
    print(p, 'exit', r.returncode)
    if r.returncode != 0:
      bad += 1
      print('\n'.join(l[:230] for l in r.stdout.splitlines()
                      if (l.startswith('  ') and not l.startswith('    ')) or 'ERROR' in l)[:2500])
  sys.exit(1 if bad else 0)
finally:
  if not keep:
    shutil.rmtree(tmp, ignore_errors=True)
