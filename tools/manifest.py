#!/venv/bin/python
"""Regenerates /verif/MANIFEST.json from the table below (kept valid at all times)."""
import json
import pathlib

VERIF = pathlib.Path(__file__).resolve().parent.parent

NOT_YET = 'check not built yet (see DESIGN.md for the plan)'

# prop -> (technique, level text, level note, design ref)
CHECKS = {}


def add(prop, technique, text, note, ref):
  CHECKS[prop] = (technique, text, note, ref)


add('C16',
    'AST pairing/typestate rules + statement-CFG path counting (min/max events per path) + who-may-touch check on the thread-local stack',
    'Decides the structural clauses that make status restoration hold on every exit: every status context (hand-written and in generated templates) is entered by a with statement or by a guard-identical __enter__/__exit__ pair of an owner that is itself only used by with; push/pop exactly once on every CFG path, LIFO pop only, __exit__ never swallows; the stack is reachable only through a lazily initialised attribute of a module-level threading.local; literal statuses of the three wrappers. Structural, for all call trees and exits; does not execute anything.',
    'Trusts Python\'s with-statement semantics and threading.local; does not decide run-time interleavings (isolation follows from the thread-local clause) nor user code that enters contexts by hand.',
    'DESIGN.md section 4, C16')

add('C20',
    'field-flow extraction on ConversionOptions (constructor/tuple/eq/hash/to_ast/call_options), template model of the embedded constructor call, static evaluation of the constant string operations that render the feature list, truth-table equivalence of uses(), CFG path counting in FunctionScope.__init__',
    'The option space is finite (1024 values); the check decides the structural facts that imply the statement for all of them: value tuple = constructor parameters, eq over every field of both operands, hash over a subset, no mutation after __init__, frozenset normalisation of None/single/iterable, one embedded keyword per parameter fed from the same field, feature list rendering for 0..3 elements parses back to ag__.Feature members, ag__ exports, STD shortcut guarded by all fields, call_options field flow, uses() formula, FunctionScope/function-scope option wiring.',
    'Trusts str(bool) / str(Enum member) spelling of CPython and that ag__ attribute lookup follows get_extra_locals; nothing is executed.',
    'DESIGN.md section 4, C20')

add('C04',
    'ASDL-closure traversal analysis: for each responsible pass and construct kind, a syntax-directed must-traverse analysis of every visit_<Kind> handler (helpers inlined through the MRO) against can_derive(field type, kind) computed from the interpreter grammar; exit classification (generated vs pass-through) with documented-guard table; operator table check; computed pass-order constraints; zero-count SKIP_PROCESSING rule with positive-control fixture',
    'For every node kind of the CPython 3.12 grammar in scope and every field that can (transitively) contain an if/while/for/break/continue/return/call/boolean/conditional expression, decides that the responsible converter dispatches that field on every normal path of its handler (absence of an override = generic_visit), that the construct handlers recurse and return generated code except under the documented exceptions, that the operator tables map And/Or/Not/Eq/NotEq to the right overloads, that nobody sets SKIP_PROCESSING and that constructs emitted by earlier passes are still routed (order constraints derived from templates). Covers every syntactic context because contexts are exactly the fields of the grammar.',
    'Trusts ast.NodeTransformer dispatch and the ASDL docstrings of the running interpreter; comprehension clauses, with-items, parameter annotations and type parameters are the documented/out-of-class exceptions (one table line each). Does not count operators dynamically.',
    'DESIGN.md section 4, C04')

add('C13',
    'statement CFG of converted_call: min/max count of invocation actions per path, mandatory-edge (dominating decision) extraction turned into a boolean formula and checked against each documented policy row by truth table; argument-forwarding shape of every action; try/except structure of conversion vs execution; reaching definitions of the merged partial keywords; guard tables of is_unsupported/is_allowlisted; formula of Rule.matches',
    'Decides, on every path of the call wrapper: exactly one target invocation with the wrapper\'s own (f, args, kwargs) (or the documented self-prepending / partial merge); conversion is reachable only through the negative outcome of each documented policy row and every positive outcome cannot reach it; conversion failures are caught and answered by the caching, warning fallback; execution failures only re-raise; partial keywords are merged into a fresh copy, stored positionals first; options default from the caller scope; allow-list rules match whole dotted components, first match wins.',
    'Trusts the inspect / functools predicates to classify callables as documented; does not decide classification of exotic callables at run time.',
    'DESIGN.md section 4, C13')

add('C14',
    'table cross-check of SUPPORTED_BUILTINS / BUILTIN_FUNCTIONS_MAP; signature arithmetic of every Python-accepted call shape against the overload def; symbolic (path-forking) evaluation of each overload and its _py_ helper for every supplied/omitted assignment with sentinel resolution, ending in a checked terminal builtin call; structural check of the frame search loop and of the generated scope-name/with-as-name agreement in templates',
    'For the 13 substituted builtins decides: registered under the right name; every call shape the 3.12 builtin accepts (frozen table from the library reference) binds to the overload; for every supplied/omitted combination of optional arguments the code path (registries empty, as for ordinary values) ends in one direct call of the real builtin passing exactly the supplied arguments in slots of the same meaning and never the sentinel or an invented value; frame-sensitive builtins are identity-dispatched with the caller scope, the frame search walks the whole stack and super() uses the outermost match; scope name equals the bound name in generated code.',
    'Trusts the frozen signature table (Python 3.12 library reference) and that type registries are empty for ordinary values; does not compare values, laziness or exception types at run time.',
    'DESIGN.md section 4, C14')

add('C09',
    'CFG dominance (erasure before transformation), loop-shape check of the erasure, argument-flow check of instantiate() call and of types.FunctionType construction, reaching definitions of the closure tuple (name-keyed lookup), template model of the two-factory wrapper, who-may-assign check on parameter lists across all converter handlers',
    'Decides the structural mechanism behind interface preservation: defaults are erased on every path before any pass sees the tree and the erasure walks both lists completely; every result is instantiated from the requesting function\'s own __globals__/__closure__/__defaults__/__kwdefaults__; the new function is bound afresh on each request with globals = the argument and cells looked up by name over the factory code\'s free variables; defaults reattached as the same objects; factory template declares every closure variable and returns the entity by name; no converter rebuilds a parameter list; decorators dropped only at top level; bound instance prepended under an identity test.',
    'Trusts types.FunctionType and the interpreter\'s cell semantics; does not decide call binding at run time.',
    'DESIGN.md section 4, C09')

add('C10',
    'typestate/dominance on the statement CFG of PyToPy.transform_function (stores, transformation and create() inside the lock and behind a re-check; store dominated by create()), key-function and weak-dictionary checks, who-may-write check on the cached factory, argument flow of instantiate(), lock-order graph over the resolved call graph',
    'Decides the necessary structure of a coherent once-only thread-safe cache: double-checked locking with the factory published only after it is complete, lock-free path read-only; key is the code object in a WeakKeyDictionary, subkey the complete options value (C20 shows its eq/hash cover all fields); the cached factory is never written by instantiate() and is built from code-object data only, each request binds it to its own globals/closure/defaults; negative cache keyed by function object and options; lock order cache-lock -> linecache-lock is acyclic.',
    'Histories and schedules are not enumerated: these are necessary conditions (each one\'s violation gives a concrete failing interleaving), not a proof of linearizability. Trusts threading.RLock and WeakKeyDictionary.',
    'DESIGN.md section 4, C10')

add('C15',
    'interprocedural taint analysis from the source getters to the parser with an allow-list of line-local operations; bound analysis of line slices through reaching definitions and guards; mandatory-edge (dominating decision) analysis of every return of _parse_lambda on its statement CFG; grow-only typestate of the candidate lists; call-shape checks of the immediate-source getter and linecache repair',
    'Decides the structural part: on the way from inspect/linecache to ast.parse the recovered text is only split, sliced inside a line\'s own leading whitespace (bound derived from that line\'s whitespace match or an INDENT token), joined and prefixed; context-free whole-text edits are reported (one is a listed known finding, F7); every lambda return is dominated by a len(list)==1 test of the list it was unpacked from, other paths raise the documented error, candidate lists only grow and the whole module is parsed; the getter uses findsource/getblock under the lock and repairs linecache with the owning module\'s namespace.',
    'Trusts tokenize, inspect and linecache; does not decide AST equality for every layout.',
    'DESIGN.md section 4, C15')

add('C11',
    'complete enumeration of identifier sources: every Namer.new_symbol call site with provenance of its reserved set (reaching definitions back to a scope annotation of the converted node), set-algebra evaluation of Scope.referenced and of the Namer loop test to membership formulas compared by truth table, CFG path check that parameters are always recorded as bound, template model classification of literal binders / literal free names with placeholder provenance, scan of hand-built Name/arg/def nodes',
    'Decides that every identifier the converter can introduce is either generated against a reserved set that is `referenced` of a scope of the node being converted (read | bound | parents, computed on demand) and rejected while in namespace/reserved/generated, or a literal that cannot meet user identifiers (no literal binder shares a scope with user-provenance placeholders; no literal free name outside {ag__}). The four places that spell a builtin by name are listed known findings (F6).',
    'Trusts that the activity analysis records every binding construct (C08 decides that) and that ag__ is the only injected alias; does not run differential tests.',
    'DESIGN.md section 4, C11')

add('C03',
    'template model of the three control-flow templates and the state-function templates (placeholder provenance, generated def signatures), reaching definitions linking the names tuple / getter list / setter targets to one list value, callback-event automata of the operator fallbacks for callback arities and of ldu against its reference language (DFA equivalence), set-algebra formulas of _get_block_vars for nouts bounds, CFG path counting for annotation carry-over',
    'Decides statically, for every operator call the converter can emit: names tuple, getter tuple and setter targets are order-preserving filter-free images of one list; getter is a single return, setter one assignment to the same targets, composites read through ldu whose event language is value-or-Undefined on exactly KeyError/AttributeError/NameError; callback parameter counts equal the arities the fallbacks call them with and the documented ones; every positional argument of ag__.if_stmt/while_stmt/for_stmt/if_exp is the placeholder of the matching role and counts agree with the operator definitions; nouts = len(state)-len(input_only) with input_only a subset of state and the sort key built on the same set; iterate_names appended in lock step; loop options come from the node\'s own directives; rebuilt loops keep their annotations.',
    'Does not decide run-time values of composite state; trusts templates.replace to substitute placeholders positionally as written.',
    'DESIGN.md section 4, C03')

add('C17',
    'ASDL well-formedness check of every ast.<Kind>(...) construction (grammar read from the interpreter), provenance analysis of ReplaceTransformer return values (must derive from copy_clean), dominating-guard analysis of CleanCopier.copy returns, CFG dominance / must-pass-through for the save/restore of the context override, who-may-call check for unset-ctx producers, reaching-definition identity of the text written and the text mapped, taint check on the printed text, argument forwarding of to_code',
    'Decides the structural conditions under which the transformed tree is a proper tree with correct contexts and the loaded text is the shown text: all hand-built nodes are well-formed for the running grammar; template replacements are clean deep copies and the copier shares only leaf values; each replacement is adjusted to the placeholder context and the adjuster restores its override around every child visit; nodes with unset ctx exist only as template replacements; load_ast writes and maps one source value; unparse edits no printed line; to_code converts with exactly the options given.',
    'Trusts ast.unparse/ast.parse round-tripping (stdlib) and the single recorded exception (visit_arg hands through freshly built ast.arg nodes).',
    'DESIGN.md section 4, C17')

add('C18',
    'frozen laziness table and evaluation-order table (language reference) checked against the handlers of AnfTransformer: helper-return classification and always-raises CFG test for lazy constructs, dominance of the pending-count snapshot over the visit, field-visit order extraction per handler against the grammar field order, ASDL-closure traversal analysis for completeness, CFG dominance for flush-before-blocks, dead-class references, increment-before-use',
    'Decides the structural clauses: every lazy/re-evaluated construct is only accepted when nothing was extracted (count taken before the visit) or rejected; per node kind the field visiting order equals Python\'s evaluation order; every expression-holding field is visited; header statements are flushed before blocks and nothing pending crosses a block; pass-through tables name live classes; temporaries are fresh. Three genuine order defects of the unchanged tree are listed known findings (F9a batch visit-then-name, F9b assignment targets first, F9c dict keys before values).',
    'Does not execute transformed programs; the evaluation-order table is frozen from the language reference.',
    'DESIGN.md section 4, C18')

add('C05',
    'ASDL field-type abstract interpretation of the graph builder\'s handlers; exhaustiveness of statement handlers against the interpreter grammar; path enumeration with per-family stack simulation for enter/exit pairing; CFG dominance for the try-scope ordering; call-shape and loop-exit analysis of the jump API and guard collectors; who-may-write and same-block checks for edge mirroring; in-place-shrink check of the leaf set',
    'Decides the structural necessary conditions of an over-approximating, well-formed graph: every in-scope statement kind gets a node; bookkeeping of statements, lexical scopes and sections is balanced on every path; a try leaves the scope stack before its finally body (jumps in finally) — and should stay on it during handlers, which the unchanged tree violates (listed known finding F15); return/break/raise/continue use the jump API with guards collected from every enclosing try up to the right statement kind; next/prev/forward_edges are written together only by the connecting primitive and statement-level edges derive from them; the leaf set is never shrunk in place.',
    'Does not decide that the leaf/finally-subgraph algorithm yields every executable path for every nesting; exception flow from calls is exempt by the property.',
    'DESIGN.md section 4, C05')

add('C06',
    'set-algebra evaluation of the reaching-definitions transfer function and of the state class operators to membership formulas over named atoms, compared with the required bounds by exhaustive truth table; structural checks of the join loop, the change flag (CFG dominance), the worklist driver (per-iteration path counting + re-enqueue formula) and the defined-on-entry aggregation; consumer formula in control_flow',
    'Decides the mechanism of the analysis: join over all predecessors; _NodeState.__or__/__sub__ are union/difference; defs_out contains (bound ∪ globals − deleted) ∪ params ∪ (defs_in − kill) with kill inside modified ∪ deleted; scope-less nodes pass through; the revisit flag compares the propagated out-state; the driver evaluates every dequeued node and re-enqueues on change or first visit; defined-on-entry unites all statement predecessors; for-targets are annotated at the header node; the consumer subtracts exactly defined/global/nonlocal names.',
    'These are the equations and the fixed-point machinery, not soundness of the solution with respect to executions (which depends on the CFG, C05).',
    'DESIGN.md section 4, C06')

add('C07',
    'set-algebra evaluation of liveness.Analyzer.visit_node (neighbour-union and closure loops included) to a membership formula and truth-table comparison with the required lower bounds; structural checks of the reaching-function-definitions analysis, change flags, worklist driver, block-level aggregation, edge mirroring and the for-header scope placement in activity / cfg',
    'Decides the mechanism: live_out is the union over all successors; live_in contains read ∪ (live_out − kill) with kill inside modified ∪ deleted; every free name of a reaching local function (read-only, or declared nonlocal) is live-in regardless of the kill set; the reaching-function analysis joins over all predecessors, adds def nodes and reports changes of its out-state; revisit flag compares in-states; driver runs backward to a fixed point; block live-out unites all statement successors (whose edges are mirrored from the node graph); block live-in is read at the entry node; the for target assignment sits in the header node\'s scope.',
    'Equations and fixed-point machinery only; soundness w.r.t. executions additionally depends on the CFG (C05) and the scope analysis (C08).',
    'DESIGN.md section 4, C07')

add('C08',
    'exhaustiveness of binding constructs against the identifier fields of the interpreter grammar; CFG must-pass-through counting of Scope-set updates per binding handler; structural extraction of the context table of _track_symbol; dominance of default visits over the annotations-only switch; set-algebra evaluation of Scope.finalize and Scope.free_vars to membership formulas with truth-table bounds; sibling agreement of copy_from / merge_from; ASDL field-type interpretation of activity.py and qual_names.py',
    'Decides the mechanism by which the analysis follows Python\'s binding rules: every binding construct (def/class names, import aliases, parameters of all five kinds, global/nonlocal declarations, Name/Attribute/Subscript targets, unpacking) is recorded in the right sets on every path; Store/Load/Del/AugAssign table; defaults visited in the defining scope before annotations-only mode; blocks export read/modified/bound minus isolated names plus declarations, functions export exactly their free names including nonlocal-declared ones; free_vars has the same formula; state reset and merge of parallel blocks agree; field types respected.',
    'Does not compare with symtable on programs; comprehension targets and except-clause names are set aside by the property.',
    'DESIGN.md section 4, C08')

add('C19',
    'set-algebra evaluation of _TypeMap.__or__ and of type_inference.Analyzer.visit_node to membership formulas with truth-table bounds (new symbols in, stale rebinding out, untouched symbols through); dominating-decision formulas showing every combining visitor returns None before the resolver when an operand is unknown; CFG must-pass-through of the rtype restore; grow-only check of closure types; shared join / flag / driver rules; ASDL field typing',
    'Decides the mechanism that makes the reported sets over-approximate: join over all predecessors; the map join is a per-symbol union that never removes a type; the outgoing map is a copy of the incoming one in which assigned symbols are overwritten and symbols rebound without a known type are forgotten (the unchanged tree kept them: fixed, F17); unknown operand implies unknown result in BinOp/UnaryOp/Compare/Subscript/Tuple; unpacking restores the assigned type; closure types only grow and are recorded at every statement mentioning the function; revisit flag and driver.',
    'Soundness also depends on the resolver answering truthfully and on the CFG/scope analyses (C05, C08); nothing is executed.',
    'DESIGN.md section 4, C19')

add('C02',
    'set-algebra evaluation of the state-selection functions (_get_block_basic_vars / _get_block_composite_vars / _get_block_vars) and of _create_nonlocal_declarations to membership formulas, truth-table comparison with the required bounds; reaching-definition check of the `modified` argument at each call site; template model check that every generated function holding user statements declares the state first; sibling agreement of the analyses on the hidden loop test; closure-liveness formula shared with C07',
    'Decides the selection mechanism and its wiring: the state tuple contains every modified simple variable that is live-in, live-out, nonlocal or global and every modified composite whose support symbols are live-in (literal keys exempt); input-only variables are state, live-in, not live-out and never composite; the modified set unites all blocks of the statement; generated body/orelse/setter functions declare the state (global vs nonlocal split, composites excluded) before user statements; cfg, activity and reaching_fndefs all walk the hidden extra loop test and break keeps its flag referenced in the loop; free variables of reaching closures are live regardless of the kill set.',
    'Soundness of liveness/definedness on all programs is decided only as mechanism (C06, C07); what a backend does with the state is out of scope.',
    'DESIGN.md section 4, C02')

add('C01',
    'callback-event automata of the operator fallbacks compared with reference automata of the Python constructs by DFA equivalence (through the dispatchers); pass-order constraints computed from templates and annotation reads/writes and checked against transform_ast; traversal analysis of block-restructuring passes over every statement-list field of the grammar; ASDL field-type abstract interpretation of converters, analyses and CFG builder; resolution and signature binding of every emitted ag__ name; template-level control-flag discipline with CFG path counting; set-algebra bound for Undefined placeholders; closure-liveness formula',
    'Decides necessary structural conditions of semantic preservation: the ten operator fallbacks (if/while/for statements, and/or/not, eq/not_eq, conditional expression, function-scope ret) have exactly the event language and result values of the constructs they replace, ld only raises for Undefined; all pass-order constraints derived from what passes emit, move, bind and annotate hold; continue/return/list passes route every statement list of def/for/while/if/with/try/except through their guarded block visitor; no handler mistreats an AST field type; every emitted ag__.X exists and the call binds; control flags are tested before user tests, initialised before use, and loops with lowered jumps test the flag on every path; Undefined is never assigned to defined/global/nonlocal/composite names; closures keep their free variables live. One LISTS-only defect is a listed known finding (F13).',
    'Does not decide the guard-propagation algorithms of the jump lowerings nor value-level equivalence of whole converted programs; reference automata are the Python language reference semantics as written in the checker.',
    'DESIGN.md section 4, C01')

# rules added after the first round of seeded changes (see DESIGN.md section 10)
ADDENDA = {
    'C01': ('linear-use / template-multiplicity analysis of user expressions (DUP-EVAL), source tracing of store-position placeholders (NEW-BINDING), user expressions moved into generated function scopes (SCOPE-MOVE), state-frame requirement on block visitors, order constraints for code parked in annotations (O6) and for stale analysis annotations (O7), abstract evaluation of the BoolOp / Compare folds on symbolic operands (FOLD), stale-child taint (STALE), presence-based annotation copy (ORIG-DEFS), traversal of the variable pass (LD-TRAV), standard-library name resolution (STDLIB), state-frame pairing (FRAME); imported necessary conditions of C03 C05 C06 C07 C08 C09 C11 C13 C14',
            ' A user expression reaches the generated code at most once on every handler path and a repeated placeholder only receives plain names; templates assign only to fresh symbols or to what the user statement binds; every block is visited inside a fresh frame of the pass state.'),
    'C02': ('user expressions moved into generated function scopes (SCOPE-MOVE); imported rules: activity traversal/order (C08), getter/setter, support-set, output-count and tuple-order rules (C03), closure liveness and value-type state (C07)', ''),
    'C03': ('imported setter-parameter hygiene rule (C11 HYG-SUPPORT); abstract evaluation of the BoolOp / Compare folds: every operand of and_ / or_ is a lambda (FOLD); alias analysis of module-level mutable objects (SHARED-MUT, with positive-control fixture); abstract evaluation of QN.support_set as a structural fold (QN-SUPPORT)',
            ' Directive tables and option nodes are per loop (no module-level mutable object is mutated through an alias); the support of a composite is the union of the supports of its parts.'),
    'C04': ('definition-time fields of a nested def (decorators, defaults, return annotation) dispatched outside the frame of the function itself, with a guarded traversal exception for the top-level return annotation; order constraint O6 for code parked in annotations; FOLD and STALE (see C01); exact predicates for the documented native-call exceptions; imported cache-key / option equality rules (C10, C20)', ''),
    'C05': ('an entry of the statement-edge tables for every statement that owns a node (CFG-MIRROR); reachability order of statement-list visits relative to the lexical-scope window (CFG-SCOPE); per-section builder state keyed by the section (CFG-KEYED); path analysis of jump recording and wiring in the builder (CFG-WIRE)',
            ' Loop bodies and try body/else are visited while their statement is on the lexical scope stack, loop else and finally bodies after it has left; nestable sections keep their state in tables keyed by the section.'),
    'C06': ('totality of the state equality behind the change flag (RD-FLAG); value-type check of the lattice state class; imported CFG rules (C05) and activity traversal / parameter rules (C08)', ''),
    'C07': ('path-wise values of the block live-in annotation, annotators found by role (LV-BLOCK); value-type check of the reaching-function-definitions state; imported CFG rules (C05) and activity traversal / order / finalisation rules (C08)', ''),
    'C08': ('the isolated scope of the class body is closed into the scope recorded on the class statement (symbolic scope stack); symbolic scope-stack evaluation of the lambda handler (the calling statement receives read minus bound of the one isolated scope); comprehension-locality decided over every comprehension frame; one scope record per tag per path; no removal from the symbol sets of a scope (SCOPE-GROWS); must-traverse analysis of every ActivityAnalyzer / QnResolver handler over every field that can hold a Name (ACT-TRAV, constant-flag and literal-iteration aware); dominance-based visit order (ACT-ORDER); per-name recording of global/nonlocal lists; state-frame pairing (ACT-FRAME)',
            ' Every handler of the activity analysis and of the qualified-name resolver visits every symbol-bearing field on every path; comprehension iterables are visited before their targets are registered.'),
    'C09': ('imported activity traversal rule restricted to parameter fields (C08)', ''),
    'C10': ('imported binding rules of instantiate (C09: IFACE-BIND, IFACE-INST); guard analysis of every caching call of the unconverted path: remembered decisions depend on (function, options) only; imported option equality rules (C20)', ''),
    'C11': ('case-wise evaluation of QN.support_set (HYG-SUPPORT); no removal from scope sets (HYG-SCOPE-GROWS); the root-skipping lambda search is handed the function node', ''),
    'C13': ('path-wise decision of policy rows whose verdict travels through a local; the DISABLED-context exit binds the cache flag to False; path-wise evaluation of the warning calls of the fallback over failure class / inspection support / negative cache; path-wise values of the positional arguments handed to the converted function; first-match-over-the-full-MRO rule for the defining class; imported negative-cache (C10) and status-stack rules (C16)', ''),
    'C14': ('namespace of eval / locals collected from every frame of the function (all-locals); raw-source scan of the run-time library for scope-named locals; expansion of the arguments completing zero-argument super() to the frame\'s __class__ cell and first argument; imported policy-chain rules (C13)', ''),
    'C15': ('same reaching definition for the tokenised text and the text whose lines are paired (paired-lines-of-one-text); module-state rule over every function on the recovery path (SRC-NOSTATE); compiled-pattern substitutions count as context-free edits', ''),
    'C16': ('the wrapper is returned on every path of the status decorators; imported cache-key rule (C10): user-requested and recursive conversions are cached apart', ''),
    'C17': ('converter handlers of ctx-bearing node kinds replace the node only under a Load test (replaces-loads-only); kinds that force their children to Load; encoding of the module file; provenance of Literal values (TREE-LITERAL); no-__wrapped__ rule on the chain that creates the loaded function; return-case analysis of every statement handler of the tree transformers and attribute-store tracking of shortened user blocks (TREE-NONEMPTY)',
            ' No generated compound statement has an empty statement list: statement handlers never delete a statement, and a shortened user block embedded as a whole body gets a pass.'),
    'C18': ('path condition of the replacement step excludes Store / Del contexts, slices and tuples holding a slice (ANF-TARGET); with-items named from their own loop variable; the edge-pattern match as a formula over its six tests; wrapper kinds hand (parent, field) on; the pending list is not drained before the while rejection test; imported clean-copy rules of the template machinery (C17)', ''),
    'C19': ('abstract state carries the symbols of unknown type: dropped symbols are marked, the join unites the marks and drops marked symbols, copy / equality cover them, stale annotations are deleted (TI-UNKNOWN); totality of the state equality behind the change flag; dropped keys are qualified names; value-type check of the type map; imported CFG rules (C05) and parameter / traversal rules (C08)', ''),
    'C20': ('reaching-definition check that the rendered feature collection is the unmodified parameter; balanced state stack of the functions pass (OPT-FRAME)', ''),
}
THOROUGH = (' Thorough tier: the same rules, re-evaluated on three behaviour-preserving twins of the current tree (re-printed; locals renamed; methods reordered) whose verdict must agree, '
            'on scratch copies carrying each confirmed seeded change of the property that still applies, each of which must be reported, '
            'and on scratch copies carrying each recorded behaviour-preserving refactoring of the property, none of which may add a violation '
            '(a missed control or an alarm on a refactoring is ANALYSIS-ERROR).')

NOT_APPLICABLE = {
    'C12': 'quantifies over run-time tracebacks, generated line layout and source-map contents, which exist only after the pipeline has run on a program; the only shape-level clause (exception re-creation table) is too small a part to claim the property through (DESIGN.md section 5)',
}


def main():
  props = [json.loads(l)['id'] for l in open(VERIF / 'properties.jsonl')]
  checks = []
  for p in props:
    if p not in CHECKS:
      continue
    tech, text, note, ref = CHECKS[p]
    if p in ADDENDA:
      tech = tech + '; ' + ADDENDA[p][0]
      text = text + ADDENDA[p][1]
    text = text + THOROUGH
    checks.append({
        'property_id': p,
        'quick_cmd': 'cd /verif && /venv/bin/python -m sa.run %s --tier quick' % p,
        'thorough_cmd': 'cd /verif && /venv/bin/python -m sa.run %s --tier thorough' % p,
        'evidence_file': '/verif/evidence/%s.json' % p,
        'replay_cmd_template': 'cd /verif && /venv/bin/python -m sa.run --replay {path}',
        'engine': 'sa',
        'level_claimed': {'category': 'other', 'text': text, 'design_ref': ref},
        'level_note': note,
        'technique': 'static analysis: ' + tech,
    })
  na = []
  for p in props:
    if p in CHECKS:
      continue
    na.append({'property_id': p, 'reason': NOT_APPLICABLE.get(p, NOT_YET)})
  m = {
      'version': 1,
      'setup_cmd': 'cd /verif && /venv/bin/python -m compileall -q sa',
      'hooks': {
          'guard': 'PENNYLANEAI_DIASTATIC_MALT_VERIF',
          'enable': 'none needed: the checks parse /repo\'s working tree with ast and never import or run it; no instrumentation exists',
          'baseline_off_cmd': 'cd /repo && /venv/bin/python -m pytest -ra -q -p no:cacheprovider --timeout=900 --continue-on-collection-errors',
          'source_commits': [],
          'add_only': True,
      },
      'engines': [{
          'name': 'sa',
          'path': '/verif/sa',
          'serves_properties': sorted(CHECKS),
          'kind_free_text': 'repository-specific static analysers on the stdlib ast: resolved program model, ASDL field-type interpreter, template model, statement CFG with path counting, set-algebra formula extraction with truth tables, callback-event automata',
      }],
      'checks': checks,
      'notes': 'All checks are static analyses of /repo/malt (VERIF_REPO overrides the root for self-tests on scratch copies). Exit 0 holds / 1 VIOLATION / 2 ANALYSIS-ERROR. Known findings: /verif/known_findings.json.',
      'not_applicable': na,
  }
  (VERIF / 'MANIFEST.json').write_text(json.dumps(m, indent=1) + '\n')
  print('claimed:', sorted(CHECKS), 'not_applicable:', [x['property_id'] for x in na])


if __name__ == '__main__':
  main()
