#!/bin/bash
# usage: confirm_seed.sh <Cxx> <k> <srcdir>   -- confirms a seeded change in a fresh scratch worktree of /repo
# and, if confirmed, stores it as /verif/seeded/<Cxx>-<k>/ {patch.diff, demo.py, notes.md, meta.json}
ID="$1"; K="$2"; SRC="$3"
WT=$(mktemp -d /tmp/confirm_XXXXXX); rmdir "$WT"
git -C /repo worktree add -q --detach "$WT" HEAD || exit 3
trap 'git -C /repo worktree remove --force "$WT" >/dev/null 2>&1; rm -rf "$WT"' EXIT
cp "$SRC/demo.py" "$WT/demo_seed.py"
# any helper files the demo needs
for f in "$SRC"/*; do b=$(basename "$f"); case "$b" in patch.diff|demo.py|notes.md|scratch) ;; *) cp -r "$f" "$WT/$b";; esac; done
cd "$WT"
PYTHONPATH="$WT" timeout 300 /venv/bin/python demo_seed.py >"$WT/clean.out" 2>&1; CLEAN=$?
if ! git apply "$SRC/patch.diff" 2>"$WT/apply.err"; then
  if ! patch -p1 -s < "$SRC/patch.diff" >"$WT/apply.err" 2>&1; then echo "$ID-$K: PATCH DOES NOT APPLY: $(head -3 $WT/apply.err)"; exit 4; fi
fi
/venv/bin/python -m compileall -q malt >/dev/null 2>&1; COMP=$?
PYTHONPATH="$WT" timeout 300 /venv/bin/python demo_seed.py >"$WT/patched.out" 2>&1; PATCHED=$?
BASE=$(/verif/tools/run_baseline.sh "$WT" | tail -1)
echo "$ID-$K: clean_exit=$CLEAN patched_exit=$PATCHED compile=$COMP baseline=${BASE:0:60}"
if [ "$CLEAN" = 0 ] && [ "$PATCHED" != 0 ] && [ "$COMP" = 0 ] && [[ "$BASE" == BASELINE-OK* ]]; then
  D=/verif/seeded/${SEEDNAME:-$ID-$K}; mkdir -p "$D"
  git diff -- malt > "$D/patch.diff"
  cp "$SRC/demo.py" "$D/demo.py"; cp "$SRC/notes.md" "$D/notes.md" 2>/dev/null
  for f in "$SRC"/*; do b=$(basename "$f"); case "$b" in patch.diff|demo.py|notes.md|scratch) ;; *) cp -r "$f" "$D/$b";; esac; done
  /venv/bin/python - "$ID" "$K" "$D" "$CLEAN" "$PATCHED" "$BASE" <<'P'
import json,sys,subprocess
id_,k,d,clean,patched,base=sys.argv[1:7]
notes=open(d+'/notes.md').read() if __import__('os').path.exists(d+'/notes.md') else ''
head=subprocess.run(['git','-C','/repo','rev-parse','--short','HEAD'],capture_output=True,text=True).stdout.strip()
json.dump({'property':id_,'seed':int(k),'repo_head_confirmed_at':head,
 'confirmed':{'demo_on_clean_tree_exit':int(clean),'demo_with_patch_exit':int(patched),'compileall':'ok','baseline_with_patch':base},
 'ran':['PYTHONPATH=<wt> /venv/bin/python demo.py (clean, then with patch)','/venv/bin/python -m compileall -q malt','pytest baseline command of /root/.vp/BASELINE.json inside the scratch worktree; every baseline-passing test still passes'],
 'needs_to_manifest':notes[:1500],'source':'independent sub-agent given only the property record and a scratch worktree'},open(d+'/meta.json','w'),indent=1)
P
  echo "$ID-$K: CONFIRMED -> $D"
else
  echo "$ID-$K: NOT CONFIRMED"; tail -5 "$WT/clean.out" "$WT/patched.out"
fi
