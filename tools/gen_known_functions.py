#!/venv/bin/python
"""Regenerates fixtures/known_functions.json (names of every top-level function
and method of the reference tree) and fixtures/known_shapes.json (per function:
arity, alpha-canonical body hash, and which functions of the module refer to
it).  Run against the reference tree only (the pinned commit plus fix commits):
    tools/gen_known_functions.py [/repo]
The fixtures are what the normalising pre-pass (sa/inline.py) compares a tree
under test with, so that it can tell a *new* helper from a *renamed* one."""
import ast, json, pathlib, sys
sys.path.insert(0, str(pathlib.Path(__file__).resolve().parent.parent))
from sa import inline

repo = pathlib.Path(sys.argv[1] if len(sys.argv) > 1 else '/repo')
names, shapes, assigns = {}, {}, {}
for p in sorted((repo / 'malt').rglob('*.py')):
  rel = str(p.relative_to(repo))
  tree = ast.parse(p.read_text())
  fns = inline.scoped_functions(tree)
  names[rel] = sorted(fns)
  refs = inline.referrers(tree)
  assigns[rel] = sorted(inline.module_assigned(tree))
  shapes[rel] = {q: {'arity': inline.arity(f), 'hash': inline.shape(f),
                     'callers': sorted(refs.get(q.split('.')[-1], ()))}
                 for q, f in fns.items()}
out = pathlib.Path(__file__).resolve().parent.parent / 'fixtures'
old = json.loads((out / 'known_functions.json').read_text())
if old != names:
  print('known_functions.json changes:', {k for k in names if names.get(k) != old.get(k)})
(out / 'known_functions.json').write_text(json.dumps(names, indent=1, sort_keys=True))
(out / 'known_shapes.json').write_text(json.dumps(shapes, indent=1, sort_keys=True))
(out / 'known_assigns.json').write_text(json.dumps(assigns, indent=1, sort_keys=True))
print(sum(len(v) for v in names.values()), 'functions')
