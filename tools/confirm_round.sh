#!/bin/bash
# usage: confirm_round.sh <round-prefix e.g. R3> <tag e.g. r3>   confirms every finished out/k of /tmp/wt/<prefix>Cxx not yet processed
P="$1"; T="$2"; LOG=/tmp/confirm_$T.log; touch $LOG
for d in /tmp/wt/${P}C*/out/*/; do
  k=$(basename $d); id=$(basename $(dirname $(dirname $d))); id=${id#$P}
  [ -f "$d/patch.diff" ] && [ -f "$d/demo.py" ] || continue
  [ -d /verif/seeded/$id-$T-$k ] && continue
  grep -q "^$id-$k: \(NOT CONFIRMED\|PATCH DOES NOT APPLY\)" $LOG && continue
  SEEDNAME=$id-$T-$k /verif/tools/confirm_seed.sh $id $k $d >> $LOG 2>&1
done
grep -c "CONFIRMED ->" $LOG; grep "NOT CONFIRMED\|NOT APPLY" $LOG
