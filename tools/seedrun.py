#!/venv/bin/python
"""Run checks against seeded changes on a scratch copy of /repo (never /repo itself).

usage: seedrun.py <patch.diff | seeded dir> [--props C01,C02 | --all]
Prints, per patch, which properties' quick checks report a VIOLATION.
"""
import json, os, pathlib, shutil, subprocess, sys, tempfile

VERIF = pathlib.Path(__file__).resolve().parent.parent


def claimed():
  m = json.load(open(VERIF / 'MANIFEST.json'))
  return [c['property_id'] for c in m['checks']]


def run(patch, props, tier='quick'):
  tmp = pathlib.Path(tempfile.mkdtemp(prefix='seedrun_'))
  try:
    shutil.copytree('/repo/malt', tmp / 'malt')
    r = subprocess.run(['patch', '-p1', '-s', '-i', str(patch)], cwd=tmp,
                       capture_output=True, text=True)
    if r.returncode != 0:
      return {'_apply': 'FAILED: ' + (r.stdout + r.stderr)[:300]}
    res = {}
    env = dict(os.environ, VERIF_REPO=str(tmp), VERIF_NO_EVIDENCE='1')
    for p in props:
      r = subprocess.run(['/venv/bin/python', '-m', 'sa.run', p, '--tier', tier],
                         cwd=VERIF, env=env, capture_output=True, text=True)
      lines = [l for l in r.stdout.splitlines() if l.startswith('  ') and not l.startswith('    ')]
      res[p] = (r.returncode, lines[:4])
    return res
  finally:
    shutil.rmtree(tmp, ignore_errors=True)


def main():
  args = sys.argv[1:]
  props = None
  if '--props' in args:
    i = args.index('--props'); props = args[i + 1].split(','); del args[i:i + 2]
  if '--all' in args:
    args.remove('--all'); props = claimed()
  for a in args:
    p = pathlib.Path(a)
    if p.is_dir():
      meta = p / 'meta.json'
      pp = (p / "patch.diff").resolve()
      pr = props or ([json.load(open(meta))['property']] if meta.exists() else claimed())
    else:
      pp = p.resolve(); pr = props or claimed()
    res = run(pp, pr)
    hit = [k for k, v in res.items() if k != '_apply' and v[0] == 1]
    err = [k for k, v in res.items() if k != '_apply' and v[0] == 2]
    print('%s: %s%s%s' % (a, 'CAUGHT by ' + ','.join(hit) if hit else 'MISSED',
                          (' errors=' + ','.join(err)) if err else '',
                          (' ' + res['_apply']) if '_apply' in res else ''))
    for k in hit + err:
      for l in res[k][1]:
        print('     ', k, l.strip()[:220])


if __name__ == '__main__':
  main()
