# positive control for C04/NOSKIP: the matcher must find this setter on every run
from malt.pyct import anno


def mark(node):
  anno.setanno(node, anno.Basic.SKIP_PROCESSING, True)
  return node
