"""Positive control for SHARED-MUT: both idioms must be reported."""
import ast

from malt.pyct import anno

_NO_DIRECTIVES = {}
_NO_OPTIONS = ast.Dict(keys=[], values=[])
_TABLE = {'a': 1}   # read only: must hold


class T(object):

  def _options(self, node):
    if not anno.hasanno(node, 'k'):
      return _NO_OPTIONS
    return ast.Dict(keys=[], values=[])

  def visit_For(self, node):
    opts = self._options(node)
    opts.keys.append(ast.Constant('x'))
    return node

  def directive(self, target, d):
    node_anno = anno.getanno(target, 'directives', _NO_DIRECTIVES)
    node_anno[d] = 1
    return _TABLE['a']
